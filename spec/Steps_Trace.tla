----------------------------- MODULE Steps_Trace -----------------------------
(* Trace validation for Steps: real models driven through Model._GetSteps / _RunStep by  *)
(* harness/stepscheck.py in an order emitted by TLC (or picked on the fly from what the    *)
(* real API offered), compared - observed vs observed - with the same model program run     *)
(* through Model.main().  One event per trace; the spec side folds StepOp over the order.  *)
(* Verdict "clauses:" + the failing clauses:                                              *)
(*    C08_StepOrderIndependent  both schedules produced equations of a well-formed model,   *)
(*                              decided exactly, and the variable sets or a series differ    *)
(*    drift_<clause>            the real step API did something StepOp does not predict      *)
(*                              (raised, offered other commands, other text, ...)             *)
(*    undecided_steps           the exact oracle could not decide: no statement               *)
EXTENDS Steps, ModelBlueprints, Json, IOUtils

Log == ndJsonDeserialize(IOEnv.TRACE_FILE)

VARIABLES l, fails
tvars == << svars, l, fails >>

LookupBp(name) == CHOOSE b \in Blueprints : b.name = name

(* fold the spec action over the observed order as far as the spec allows it *)
RECURSIVE Replay(_, _, _, _)
Replay(S, b, d, cmds) ==
    IF cmds = << >> THEN [S |-> S, left |-> cmds, legal |-> TRUE]
    ELSE IF S.steps = << >> THEN [S |-> S, left |-> cmds, legal |-> FALSE]
    ELSE IF Head(cmds) \notin S.steps[1] THEN [S |-> S, left |-> cmds, legal |-> FALSE]
    ELSE Replay(StepOp(S, b, d, Head(cmds)), b, d, Tail(cmds))

Clauses(e) ==
    LET b == LookupBp(e.name)
        d == CanonOrder(b)
        r == Replay(InitS(b, d), b, d, e.order)
        specDone == r.legal /\ r.S.steps = << >>
        specClean == r.legal /\ r.S.st.err = NoErr                  \* no error predicted along the replayed commands
        specOk == specDone /\ specClean /\ NormSt(r.S.st) = MainOf[b]
        same == e.same_vars /\ e.same_series
    IN (IF b.wellformed /\ e.both_built /\ e.decided /\ ~same THEN {"C08_StepOrderIndependent"} ELSE {})
       \cup (IF e.both_built /\ ~e.decided THEN {"undecided_steps"} ELSE {})
       \cup (IF ~r.legal THEN {"drift_steps_illegal_order"} ELSE {})
       \cup (IF ~e.offered_ok THEN {"drift_steps_not_offered"} ELSE {})
       \cup (IF ~e.first_ok THEN {"drift_steps_first_list"} ELSE {})
       \cup (IF e.raised /\ ~e.same_outcome /\ r.S.st.err = NoErr THEN {"drift_steps_raised"} ELSE {})
       \cup (IF ~e.raised /\ e.offered_ok /\ r.legal /\ (e.exhausted # specDone) THEN {"drift_steps_list_exhaustion"} ELSE {})
       \cup (IF specDone /\ e.both_built /\ e.decided /\ (specOk # same) THEN {"drift_steps_equivalence"} ELSE {})
       \cup (IF specDone /\ e.both_built /\ r.S.gen = AllStepsOf[b].gen /\ ~e.same_text THEN {"drift_steps_text"} ELSE {})
       \cup (IF e.mode = "runall" /\ ~e.raised /\ e.order # AllStepsOf[b].ran THEN {"drift_runall_order"} ELSE {})
       \cup (IF e.completed /\ e.decided /\ same /\ ~e.float_close THEN {"drift_steps_float_series"} ELSE {})
       \cup (IF e.completed /\ ~e.state_finished THEN {"drift_steps_state"} ELSE {})
       \cup (IF b.wellformed /\ ~e.main_built THEN {"drift_main_not_built"} ELSE {})

RECURSIVE JoinSet(_)
JoinSet(S) == IF S = {} THEN "" ELSE LET x == CHOOSE y \in S : TRUE IN x \o "," \o JoinSet(S \ {x})

TraceInit == /\ bp = (CHOOSE b \in Blueprints : TRUE) /\ decl = CanonOrder(bp) /\ phase = "steps" /\ gi = 0
             /\ st = EmptySt(bp) /\ steps = << >> /\ ran = << >> /\ gen = << >> /\ codes = FALSE
             /\ l = 1 /\ fails = {}

TraceNext ==
    /\ l <= Len(Log)
    /\ l' = l + 1
    /\ UNCHANGED svars
    /\ LET e == Log[l] IN
       \/ /\ e.ev = "Steps"
          /\ fails' = fails \cup Clauses(e)
       \/ /\ e.ev = "End"
          /\ PrintT(<< "VERDICT", e.tid, "clauses:" \o JoinSet(fails) >>)
          /\ fails' = {}

TraceSpec == TraceInit /\ [][TraceNext]_tvars
AllConsumed == TLCGet("stats").diameter - 1 = Len(Log)
=============================================================================
