SPECIFICATION Spec
CONSTANTS
  Schemes <- MC_SchemesQuick
  AllowMalformed = TRUE
  AsFound_SignedRelativeTest = FALSE
  AsFound_NearZeroBandIgnoresDrift = FALSE
  AsFound_ExclusionBySubstring = TRUE
  AsFound_DecorativeUntested = FALSE
  AsFound_DecorativeExcluded = FALSE
  AsFound_TimeAxisFrozen = FALSE
  AsFound_AcceptanceUsesStepTolerance = FALSE
  AsFound_ShortHorizonNotCompared = FALSE
INVARIANT TypeOK
INVARIANT C15_AcceptedIsSteady
INVARIANT C15_JudgesExactlyNonExcluded
INVARIANT C15_OtherwiseRaises
PROPERTY C15_LeavesSolverUntouched
CHECK_DEADLOCK FALSE
