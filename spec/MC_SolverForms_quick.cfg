SPECIFICATION Spec
CONSTANTS
  Forms <- MC_AllForms
  Positions <- MC_AllPositions
  Sources <- MC_QuickSources
  AllowIC = TRUE
  AllowVia = FALSE
  SpliceNegated = FALSE
INVARIANT TypeOK
INVARIANT C02_IteratedSystemEquivalent
CONSTRAINT Emit
CHECK_DEADLOCK FALSE
