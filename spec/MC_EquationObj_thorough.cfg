SPECIFICATION OSpec
CONSTANTS
  Leads = {}
  Bodies = {}
  SignForms = {}
  JoinElems = {}
  MaxTerms = 0
  MaxJoin = 0
  AsFound_BlobMerge = FALSE
  MaxOps = 4
  ObjForms <- MC_ObjForms
INVARIANT C12_ValuePreserved_Both
CONSTRAINT Emit
CHECK_DEADLOCK FALSE
