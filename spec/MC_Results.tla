----------------------------- MODULE MC_Results -----------------------------
(* Bounded instances of Results and behaviour emission.                     *)
EXTENDS Results, Json

(* the stored series the unit tests use ('t': [0, 1, 2]) plus a second one *)
MC_InitStore == [t |-> << 0, 1, 2 >>, x |-> << 4, 5, 6 >>]
(* the BaseSolver object of test_base_solver.py; harness/checks/c16.py builds the same *)
MC_BaseStore == [x |-> << 1, 1, 1 >>, y |-> << 2, 2, 2 >>, t |-> << 0, 1, 2 >>]

(* a ragged store: t has 5 points (an exogenous series after an interrupted run), x 3 *)
MC_RaggedStore == [t |-> << 0, 1, 2, 3, 4 >>, x |-> << 4, 5, 6 >>]
MC_ExtNone == {}
MC_ExtX == { "x" }
MC_ExtBoth == { "t", "x" }
MC_CutsRagged == { NoCut, 3 }       \* 3 truncates t and is beyond the last point of x

MC_VarListsOne == { << "x", "y", "t" >> }
MC_VarListsAll == { << "x", "y", "t" >>, << "t", "x" >>, << "y", "x" >> }

MC_CutsFew == { NoCut, 1 }
MC_CutsEdge == { NoCut, 1, 2, 5 }   \* 2 = index of the last stored point, 5 = beyond it
MC_CutsMid == { NoCut, 0, 1 }
MC_CutsAll == { NoCut, 0, 1, 5 }

MC_FmtsOne == { "%.5g" }
MC_FmtsTwo == { "%.5g", "%.2f" }

(* every maximal behaviour is printed once, as JSON, for the replay driver *)
Terminal == Len(hist) = MaxHist
Emit == Terminal => PrintT(<< "BEH", ToJson([varlist |-> vl0, store |-> InitStore, calls |-> hist]) >>)
=============================================================================
