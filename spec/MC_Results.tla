----------------------------- MODULE MC_Results -----------------------------
(* Bounded instances of Results and behaviour emission.                     *)
EXTENDS Results, Json

(* the stored series the unit tests use ('t': [0, 1, 2]) plus a second one *)
(* the step-trace and initial-steady-state groups are empty holders, as after any ordinary run *)
MC_InitStore == [main |-> [t |-> << 0, 1, 2 >>, x |-> << 4, 5, 6 >>], step |-> << >>, initial |-> << >>]
(* a run with TraceStep set: the step group holds x (two sweeps) but no t *)
MC_StepStore == [main |-> [t |-> << 0, 1, 2 >>, x |-> << 4, 5, 6 >>], step |-> [x |-> << 8, 9 >>], initial |-> << >>]
(* the BaseSolver object of test_base_solver.py; harness/checks/c16.py builds the same *)
MC_BaseStore == [x |-> << 1, 1, 1 >>, y |-> << 2, 2, 2 >>, t |-> << 0, 1, 2 >>]

(* a ragged store: t has 5 points (an exogenous series after an interrupted run), x 3 *)
MC_RaggedStore == [main |-> [t |-> << 0, 1, 2, 3, 4 >>, x |-> << 4, 5, 6 >>], step |-> << >>, initial |-> << >>]
MC_ExtNone == {}
MC_ExtX == { "x" }
MC_ExtBoth == { "t", "x" }
MC_CutsRagged == { NoCut, 3 }       \* 3 truncates t and is beyond the last point of x

(* what Get asks for.  "q" is stored nowhere (a typo); "t" / "x" asked of the step or initial group are  *)
(* main-group names asked of a group that does not hold them: these retrievals fail                    *)
MC_AsksMain == { << "main", "t" >>, << "main", "x" >> }
MC_AsksMiss == { << "main", "t" >>, << "main", "q" >>, << "step", "t" >>, << "initial", "q" >> }
MC_AsksMissAll == { << "main", "t" >>, << "main", "x" >>, << "main", "q" >>,
                    << "step", "t" >>, << "step", "x" >>, << "step", "q" >>,
                    << "initial", "t" >>, << "initial", "q" >> }
(* boundary of the time-zero suppression: stored series of 3, 2 and 1 points (the step group after a   *)
(* single traced sweep; any series right after the initial conditions), cutoff 0 as argument and as    *)
(* Model.TimeSeriesCutoff: the truncated result has exactly one point, which is the k=0 point -> []     *)
MC_EdgeStore == [main |-> [t |-> << 0, 1, 2 >>, x |-> << 4, 5 >>], step |-> [x |-> << 8 >>], initial |-> << >>]
MC_AsksEdge == { << "main", "t" >>, << "main", "x" >>, << "step", "x" >> }
MC_CutsZero == { NoCut, 0 }

(* Model.MaxTime against stores that are longer than MaxTime+1: the step group has one point per sweep (5),   *)
(* the initial group has its own horizon (4 points); MaxTime is set to 1 (and back to the default 100) between  *)
(* calls; cutoff 3 is larger than MaxTime = 1, truncates step:x and lies beyond the end of main:t               *)
MC_HorizonStore == [main |-> [t |-> << 0, 1, 2 >>, x |-> << 4, 5, 6 >>],
                    step |-> [x |-> << 8, 9, 10, 11, 12 >>], initial |-> [x |-> << 20, 21, 22, 23 >>]]
MC_AsksHorizon == { << "main", "t" >>, << "step", "x" >>, << "initial", "x" >> }
MC_CutsHorizon == { NoCut, 3 }
MC_MaxTimesNone == {}
MC_MaxTimesLow == { 1, 100 }
MC_MaxTimesAll == { 0, 1, 100 }

(* the list of names handed out by GetSeriesList, caller-side re-ordering of it, and edits of the store that  *)
(* keep the number of series (x is replaced by a, and back)                                                  *)
MC_NGroupsNone == {}
MC_NGroupsMain == { "main" }
MC_NGroupsMainStep == { "main", "step" }
MC_MutOpsTwo == { "append", "pop" }
MC_MutOpsAll == { "append", "pop", "reverse" }
MC_RenamesNone == {}
MC_RenamesXA == { << "x", "a" >>, << "a", "x" >> }
MC_AsksNames == { << "main", "x" >>, << "main", "a" >> }
MC_CutsNone == { NoCut }

(* two renderings with DIFFERENT formats, of one holder and of a second holder that shares a series name      *)
(* (MC_StepStore: x is a series of the main and of the step group)                                            *)
MC_AsksX == { << "main", "x" >> }

(* every group has its own k axis: the main run counts 0,1,2; the step trace of step 2 carries the constant   *)
(* column k = 2; the initial-steady-state run counts up to 0.  A cutoff counts stored points in every group.  *)
MC_KAxisStore == [main    |-> [k |-> << 0, 1, 2 >>,    x |-> << 4, 5, 6 >>],
                  step    |-> [k |-> << 2, 2, 2 >>,    x |-> << 8, 9, 10 >>],
                  initial |-> [k |-> << -2, -1, 0 >>,  x |-> << 20, 21, 22 >>]]
MC_AsksKAxis == { << "step", "x" >>, << "initial", "x" >> }
MC_AsksKAxisAll == { << "main", "x" >>, << "step", "x" >>, << "initial", "x" >>, << "initial", "k" >> }

(* names that differ only in letter case (distinct, legal variable names), and a series taken out and put  *)
(* back between renderings: the rendering depends only on what is stored                                   *)
MC_CaseStore == [main |-> [x |-> << 4, 5, 6 >>, X |-> << 10, 11, 12 >>], step |-> << >>, initial |-> << >>]
MC_AsksCase == { << "main", "X" >> }
MC_ReinsertsNone == {}
MC_ReinsertsCase == { "x", "X" }

MC_RMain == { "main" }
MC_RMainStep == { "main", "step" }

MC_VarListsOne == { << "x", "y", "t" >> }
MC_VarListsAll == { << "x", "y", "t" >>, << "t", "x" >>, << "y", "x" >> }

MC_CutsFew == { NoCut, 1 }
MC_CutsEdge == { NoCut, 1, 2, 5 }   \* 2 = index of the last stored point, 5 = beyond it
MC_CutsMid == { NoCut, 0, 1 }
MC_CutsAll == { NoCut, 0, 1, 5 }

MC_FmtsOne == { "%.5g" }
MC_FmtsTwo == { "%.5g", "%.2f" }

(* every maximal behaviour is printed once, as JSON, for the replay driver *)
Terminal == Len(hist) = MaxHist
Emit == Terminal => PrintT(<< "BEH", ToJson([varlist |-> vl0, store |-> InitStore, calls |-> hist]) >>)
=============================================================================
