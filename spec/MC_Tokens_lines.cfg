SPECIFICATION Spec
CONSTANTS
  Names <- MC_NamesLines
  Numbers <- MC_NumbersNone
  Strings <- MC_StringsNone
  BinOps <- MC_OpsLines
  Maps <- MC_MapsLines
  OnePairs <- MC_PairsDeep
  Routes = {}
  MaxUnits = 5
  MinUnits = 0
  MaxDepth = 1
  MaxActs = 1
  MaxNL = 1
  MaxLines = 1
  Signs = {}
  AllowCall = TRUE
  AllowList = TRUE
  AllowGroup = TRUE
  AllowLag = FALSE
INVARIANT TypeOK
INVARIANT C13_OnlyWholeNames
INVARIANT C13_Simultaneous
INVARIANT C13_ValuePreserved
INVARIANT C13_ListIsNamesInOrder
CONSTRAINT Emit
CHECK_DEADLOCK FALSE
