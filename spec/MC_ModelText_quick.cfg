SPECIFICATION MSpec
CONSTANTS
  LineForms <- MC_NoForms
  FirstForms <- MC_NoForms
  MaxLines = 1000
  MaxBlocks = 1
  AsFound_MarkerTestedOnRawLine = FALSE
  SlotSeq <- MC_SlotSeq
  DescClasses <- MC_DescClasses
  MaxDescribed = 1
  ModelMaxTime = "2"
  ModelErrTol = "1e-6"
INVARIANT MTypeOK
INVARIANT C14_ExactlyOneClass
INVARIANT C14_MeaningUnchanged
INVARIANT C14_TimeSupplied
INVARIANT C14_MalformedReported
INVARIANT C14_BlockAlone
INVARIANT C14_DescriptionsInert
CONSTRAINT Emit
CHECK_DEADLOCK FALSE
