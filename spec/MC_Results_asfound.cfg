SPECIFICATION Spec
CONSTANTS
  InitStore <- MC_InitStore
  Asks <- MC_AsksMain
  RGroups <- MC_RMain
  VarLists <- MC_VarListsOne
  BaseStore <- MC_BaseStore
  CutArgs <- MC_CutsFew
  Fmts <- MC_FmtsOne
  MaxHist = 4
  ExtNames <- MC_ExtNone
  MaxTimes <- MC_MaxTimesNone
  NGroups <- MC_NGroupsNone
  MutOps <- MC_MutOpsTwo
  Renames <- MC_RenamesNone
  Reinserts <- MC_ReinsertsNone
  AsFound_AliasWhenNoCutoff = TRUE
  AsFound_PopOnStore = TRUE
  AsFound_BaseCsvDropsT = TRUE
INVARIANT TypeOK
INVARIANT C16_GetValue
INVARIANT C16_Repeatable
PROPERTY C16_ReadsArePure
CHECK_DEADLOCK FALSE
