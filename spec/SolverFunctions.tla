---------------------------- MODULE SolverFunctions ----------------------------
(* C02, user functions: a function registered with EquationSolver.AddFunction(name, f) *)
(* and called by a simultaneous and / or a derived-only equation.  What matters is     *)
(* the CLASS of the name:                                                              *)
(*   plain            a name nothing else defines (share, mix)                         *)
(*   math             a name the math module exports (gamma, exp, log, erf, dist, ...) *)
(*   builtin_usable   one of the builtins that equations may use (abs, round, max, min)*)
(*   solver_global    another global name of the solver module (copy, warnings)        *)
(* The right-hand sides are evaluated with eval(text, globals, locals); a name is      *)
(* looked up in the layers in order.  The code puts the registered functions into the  *)
(* innermost layer (together with the values), so a registered function shadows every  *)
(* homonym:  functions -> module globals (math names, ...) -> builtins.                *)
(* GlobalsOverFunctions = TRUE models the layers merged the other way round (module    *)
(* globals laid over the registered functions): a function registered under a math     *)
(* name is silently replaced by the library function; TLC finds the counterexample.    *)
(* The concrete names of each class and the functions themselves are supplied by the   *)
(* replay driver; the residual is judged with the function the user registered.        *)
EXTENDS Integers, Sequences, TLC, FiniteSets

CONSTANTS NameClasses, Places, GlobalsOverFunctions

AllNameClasses == {"plain", "math", "builtin_usable", "solver_global"}
AllPlaces == {"sim", "deco", "both"}
Layers == {"functions", "module", "builtins"}

Defines(layer, class) ==
    CASE layer = "functions" -> TRUE                                   \* the user registered it
      [] layer = "module"    -> class \in {"math", "solver_global"}
      [] layer = "builtins"  -> class = "builtin_usable"

LookupOrder == IF GlobalsOverFunctions THEN << "module", "functions", "builtins" >>
               ELSE << "functions", "module", "builtins" >>

ResolveOp(class) ==
    LET hits == { i \in 1..3 : Defines(LookupOrder[i], class) }
    IN LookupOrder[CHOOSE i \in hits : \A j \in hits : i <= j]

NoUse == [class |-> "plain", arity |-> 1, place |-> "sim", red |-> FALSE]

VARIABLES phase,      \* "init" | "registered" | "used" | "resolved"
          use,        \* name class, arity, where the function is called, reduction setting
          resolved    \* the layer that answers the call

vars == << phase, use, resolved >>

Init == phase = "init" /\ use = NoUse /\ resolved = "functions"

Register(c, a) == /\ phase = "init" /\ phase' = "registered"
                  /\ use' = [use EXCEPT !.class = c, !.arity = a] /\ UNCHANGED resolved

Use(p, r) == /\ phase = "registered" /\ phase' = "used"
             /\ use' = [use EXCEPT !.place = p, !.red = r] /\ UNCHANGED resolved

Resolve == /\ phase = "used" /\ phase' = "resolved"
           /\ resolved' = ResolveOp(use.class) /\ UNCHANGED use

Next == \/ \E c \in NameClasses, a \in 1..2 : Register(c, a)
        \/ \E p \in Places, r \in BOOLEAN : Use(p, r)
        \/ Resolve

Spec == Init /\ [][Next]_vars

TypeOK == /\ phase \in {"init", "registered", "used", "resolved"}
          /\ use.class \in AllNameClasses /\ use.place \in AllPlaces /\ resolved \in Layers
          /\ NameClasses \subseteq AllNameClasses /\ Places \subseteq AllPlaces

(* C02: the equations hold for the function the user registered *)
C02_RegisteredFunctionAnswers == phase = "resolved" => resolved = "functions"
=============================================================================
