SPECIFICATION Spec
CONSTANTS
  Exponents <- MC_Exponents
  FlushTiny = TRUE
INVARIANT TypeOK
INVARIANT C02_ReportedAsSolved

CHECK_DEADLOCK FALSE
