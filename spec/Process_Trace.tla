--------------------------- MODULE Process_Trace ---------------------------
(* Trace validation for Process: executions of real Model / EquationSolver / Logger   *)
(* objects inside one Python process, recorded by harness/checks/c17.py, are folded    *)
(* through the actions of Process.  One total verdict per trace id.                    *)
(*                                                                                    *)
(* The driver compares what it observes with the series of the same model / block run  *)
(* alone in a fresh subprocess and ships the comparisons as Booleans:                  *)
(*   ok         the call returned (no exception)                                       *)
(*   same_keys  key set of the series = key set of the fresh-process reference         *)
(*   same_vals  every series bit-identical (repr) to the reference                     *)
(*   full       every series has length horizon + 1                                    *)
(*   same_prev  series identical to those after the previous solve of this solver      *)
(*   same_eqs   Model.FinalEquations text identical to the reference                   *)
(*   same_step  step-trace group identical to the reference traced at the same period  *)
(*   same_init  initial steady-state group identical to the reference                  *)
(* The spec decides when they must hold.                                               *)
(*   property:<clause>  a sentence of C17 is false on the observed values              *)
(*   drift:<clause>     the code did something the spec action does not predict        *)
(* A trace starts with a Begin event that carries the process state the behaviour      *)
(* starts from (id counter, logger registry): behaviours are executed one after the    *)
(* other in the same process, so this state is whatever the earlier ones left behind.  *)
EXTENDS Process, Json, IOUtils

Log == ndJsonDeserialize(IOEnv.TRACE_FILE)

VARIABLES l, verdict
tvars == << vars, l, verdict >>

Ok == [kind |-> "ok", clause |-> ""]
Prop(c) == [kind |-> "property", clause |-> c]
Drift(c) == [kind |-> "drift", clause |-> c]
Rank(v) == CASE v.kind = "ok" -> 0 [] v.kind = "drift" -> 1 [] v.kind = "property" -> 2
Worse(a, b) == IF Rank(b) > Rank(a) THEN b ELSE a     \* keeps the first of equal rank

(* conformance of the process-level state after any action *)
JudgeProcess(e) ==
    IF e.id1 # nextId' THEN Drift("id_counter")
    ELSE IF \E n \in LogNames : e.logs[n] # logs'[n] THEN Drift("logger_state")
    ELSE Ok

(* calls that also happen in the reference run: if they raise here, the model / block has no series *)
JudgeStep(e) ==
    IF ~e.ok THEN Prop("C17_HistoryIndependent") ELSE JudgeProcess(e)

(* calls that only exist in the history *)
JudgeAux(e) ==
    IF ~e.ok THEN Drift("action_raised") ELSE JudgeProcess(e)

JudgeMain(e) ==
    IF result'[e.x] = Expected(e.x)
    THEN IF ~e.ok \/ ~e.same_keys \/ ~e.same_vals THEN Prop("C17_HistoryIndependent")
         ELSE IF stepInfo'[e.x].fresh /\ ~e.same_step THEN Prop("C17_HistoryIndependent")
         ELSE IF ~e.same_eqs THEN Drift("final_equations")
         ELSE JudgeProcess(e)
    ELSE Ok

SeqToSet(q) == { q[i] : i \in DOMAIN q }

JudgeSolve(e, again) ==
    LET s == e.x
        pred == series'[s]
        hyp == AsFound_VarListCached \/ AsFound_TraceBreaksFunctions \/ Hyp_SharedFunctions \/ Hyp_RhsCachedByName
               \/ Hyp_SteadyOneShot \/ Hyp_SettingsSurviveReparse \/ Hyp_TraceNeedsStepLog
    IN IF pred.ok /\ pred.full /\ pred.keys = SeriesKeys(block'[s]) /\ pred.body = pred.own /\ pred.eqs = block'[s]
          /\ pred.ss = pred.want /\ pred.hz = BlockInfo[block'[s]].horizon /\ pred.tol = BlockInfo[block'[s]].tol
       THEN IF ~e.same_keys /\ parses'[s] > 1 THEN Prop("C17_ReparseClean")
            ELSE IF ~e.ok THEN Prop("C17_HistoryIndependent")
            ELSE IF ~e.full /\ parses'[s] > 1 THEN Prop("C17_ReparseClean")
            ELSE IF again /\ ~e.same_prev THEN Prop("C17_ResolveIdempotent")
            ELSE IF ~e.same_keys \/ ~e.full \/ ~e.same_vals THEN Prop("C17_HistoryIndependent")
            ELSE IF stepInfo'[s].fresh /\ ~e.same_step THEN Prop("C17_HistoryIndependent")
            ELSE IF pred.ss /\ ~e.same_init THEN Prop("C17_HistoryIndependent")
            ELSE IF SeqToSet(e.varlist) # varList'[s] THEN Drift("variable_list")
            ELSE IF e.nk # nK'[s] THEN Drift("exogenous_k_entries")
            ELSE IF e.steady # steady'[s] THEN Drift("steady_option")
            ELSE IF e.hz # setg'[s].hz \/ e.tol # setg'[s].tol THEN Drift("parser_settings")
            ELSE JudgeProcess(e)
       ELSE IF ~hyp
       THEN \* the block calls a function this solver was never given: alone it raises NameError, so it must here
            IF e.ok THEN Prop("C17_HistoryIndependent")
            ELSE IF ~e.same_keys \/ ~e.same_vals THEN Drift("failed_solve_state")
            ELSE JudgeProcess(e)
       ELSE \* only with an AsFound_ / Hyp_ constant TRUE: the spec itself predicts the failure
            IF e.ok # pred.ok \/ e.same_keys # (pred.keys = SeriesKeys(block'[s])) THEN Drift("asfound_prediction")
            ELSE Ok

TraceInit == Init /\ l = 1 /\ verdict = Ok

Reset ==
    /\ nextId' = 0
    /\ logs' = [n \in LogNames |-> "none"]
    /\ mstate' = [m \in Models |-> "absent"]
    /\ decl' = [m \in Models |-> NoDecl]
    /\ result' = [m \in Models |-> NoResult]
    /\ block' = [s \in Solvers |-> NoBlock]
    /\ varList' = [s \in Solvers |-> {}]
    /\ series' = [s \in Solvers |-> NoSeries]
    /\ solved' = [s \in Solvers |-> FALSE]
    /\ func' = [s \in Solvers |-> NoFunc]
    /\ reg' = [s \in Solvers |-> NoFunc]
    /\ rhsFrom' = [s \in Solvers |-> NoBlock]
    /\ steady' = [s \in Solvers |-> FALSE]
    /\ wantSteady' = [s \in Solvers |-> FALSE]
    /\ setg' = [s \in Solvers |-> NoSettings]
    /\ nK' = [s \in Solvers |-> 0]
    /\ parses' = [s \in Solvers |-> 0]
    /\ traceStep' = [x \in Holders |-> 0]
    /\ stepInfo' = [x \in Holders |-> NoStepInfo]
    /\ hist' = << >>

TraceNext ==
    /\ l <= Len(Log)
    /\ l' = l + 1
    /\ LET e == Log[l] IN
       \/ /\ e.ev = "Begin"
          /\ nextId' = e.id1
          /\ logs' = [n \in LogNames |-> e.logs[n]]
          /\ UNCHANGED << mvars, svars, traceStep, stepInfo, hist >>
          /\ verdict' = verdict
       \/ /\ e.ev = "NewModel"
          /\ NewModel(e.x)
          /\ verdict' = Worse(verdict, JudgeStep(e))
       \/ /\ e.ev = "DeclareHead"
          /\ DeclareHead(e.x)
          /\ verdict' = Worse(verdict, JudgeStep(e))
       \/ /\ e.ev = "DeclareRest"
          /\ DeclareRest(e.x)
          /\ verdict' = Worse(verdict, JudgeStep(e))
       \/ /\ e.ev = "Main"
          /\ Main(e.x, e.k = 1)
          /\ verdict' = Worse(verdict, JudgeMain(e))
       \/ /\ e.ev = "RegisterLogs"
          /\ RegisterLogs
          /\ verdict' = Worse(verdict, JudgeAux(e))
       \/ /\ e.ev = "Cleanup"
          /\ Cleanup
          /\ verdict' = Worse(verdict, JudgeAux(e))
       \/ /\ e.ev = "Reparse"
          /\ Reparse(e.x, e.b)
          /\ verdict' = Worse(verdict, JudgeStep(e))
       \/ /\ e.ev = "AddFunction"
          /\ AddFunction(e.x, e.b)
          /\ verdict' = Worse(verdict, JudgeAux(e))
       \/ /\ e.ev = "SetSteady"
          /\ SetSteady(e.x, e.k = 1)
          /\ verdict' = Worse(verdict, JudgeAux(e))
       \/ /\ e.ev = "Solve"
          /\ Solve(e.x)
          /\ verdict' = Worse(verdict, JudgeSolve(e, FALSE))
       \/ /\ e.ev = "SolveAgain"
          /\ SolveAgain(e.x)
          /\ verdict' = Worse(verdict, JudgeSolve(e, TRUE))
       \/ /\ e.ev = "SetTrace"
          /\ SetTrace(e.x, e.k)
          /\ verdict' = Worse(verdict, JudgeAux(e))
       \/ /\ e.ev = "End"
          /\ PrintT(<< "VERDICT", e.tid, verdict.kind \o ":" \o verdict.clause >>)
          /\ Reset
          /\ verdict' = Ok

TraceSpec == TraceInit /\ [][TraceNext]_tvars

AllConsumed == TLCGet("stats").diameter - 1 = Len(Log)
=============================================================================
