SPECIFICATION TraceSpec
CONSTANTS
  Models <- MC_Models
  Solvers <- MC_Solvers2
  Blocks <- MC_Blocks
  Shape <- MC_Shape
  BlockInfo <- MC_BlockInfo
  LogNames <- MC_LogNames
  TraceSteps <- MC_Trace3
  FuncBodies <- MC_FuncBodies
  MaxHist = 1000
  AsFound_VarListCached = TRUE
  AsFound_TraceBreaksFunctions = TRUE
  Hyp_IdResetPerModel = FALSE
  Hyp_SharedFunctions = FALSE
  Hyp_RhsCachedByName = FALSE
  Hyp_SteadyOneShot = FALSE
  Hyp_SettingsSurviveReparse = FALSE
  Hyp_TraceNeedsStepLog = FALSE
POSTCONDITION AllConsumed
CHECK_DEADLOCK FALSE
