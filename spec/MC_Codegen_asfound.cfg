SPECIFICATION Spec
CONSTANTS
  Blocks <- MC_Blocks
  FirstBlocks <- MC_FirstBlocks
  SecondBlocks <- MC_SecondBlocks
  Tier = "tiny"
  MathNames <- MC_MathNames
  ResidChoices = {TRUE}
  MaxGenerations = 2
  AsFound_KUndefined = TRUE
  AsFound_ChainedLagNoSeries = FALSE
  AsFound_OwnNamesAccepted = FALSE
INVARIANT TypeOK
INVARIANT C20_EachVariableOnce
INVARIANT C20_ReductionKeepsEquations
INVARIANT C20_IteratorEvaluatesEquations
INVARIANT C20_AttributesFromCurrentBlock
INVARIANT C20_VectorIsTuple
INVARIANT C20_ExogenousDeclaredVerbatim
INVARIANT C20_Closed
INVARIANT C20_ResolvesSolverNames
INVARIANT C20_LoopStateOwn
INVARIANT C20_NoNameCapture
INVARIANT C20_HeaderTimeFirst
INVARIANT C20_StepAppendsAll
INVARIANT C20_StepSatisfiesEquations
INVARIANT C20_RunsClean
CHECK_DEADLOCK FALSE
