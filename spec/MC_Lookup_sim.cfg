SPECIFICATION Spec
CONSTANTS
  CountryCodes = {"A", "B", "C"}
  Currencies = {"X", "A"}
  SectorCodes = {"HH", "GOV"}
  InitialDefault = "LOCAL"
  AbsentCode = "NOPE"
  MaxHist = 9
  MaxCountries = 3
  MaxSectors = 5
  MaxQueries = 0
INVARIANT TypeOK
INVARIANT Zone_PartitionByCurrency
INVARIANT Region_DefaultCurrency
INVARIANT FullCode_Rule
INVARIANT Lookup_DuplicateRejected
CHECK_DEADLOCK FALSE
CONSTRAINT Ordered
CONSTRAINT Emit
