------------------------- MODULE MC_ModelBuild_Trace -------------------------
EXTENDS ModelBuild_Trace
TraceBlueprints == AllBlueprints
=============================================================================
