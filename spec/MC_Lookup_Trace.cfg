SPECIFICATION TraceSpec
CONSTANTS
  CountryCodes = {}
  Currencies = {}
  SectorCodes = {}
  InitialDefault = "LOCAL"
  AbsentCode = "NOPE"
  MaxHist = 1000
  MaxCountries = 1000
  MaxSectors = 1000
  MaxQueries = 0
POSTCONDITION AllConsumed
CHECK_DEADLOCK FALSE
