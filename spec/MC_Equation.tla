---------------------------- MODULE MC_Equation ----------------------------
(* Bounded instances of Equation and behaviour emission.                    *)
EXTENDS Equation, EquationConsts, Json

(* every maximal behaviour is printed once, as JSON, for the replay driver *)
Terminal == \/ (mode = "eq" /\ Len(added) = MaxTerms)
            \/ mode = "join"
Emit == Terminal =>
          PrintT(<< "BEH", ToJson([start |-> start, added |-> added, join |-> jn.arg, mode |-> mode]) >>)
=============================================================================
