------------------------------- MODULE Tokens -------------------------------
(* sfc_models/utils.py: list_tokens, replace_token, replace_token_from_lookup         *)
(* (callers: Term.ReplaceTokensFromLookup, Sector._CreateFinalEquations,              *)
(* EquationParser.FindExactMatches).                                                  *)
(*                                                                                    *)
(* An expression is a sequence of tokens [kind, text], kind in NAME/NUMBER/OP/STRING, *)
(* which is what Python's tokenize makes of the source text.  One action per call:    *)
(*   Push(t), Lag      build a well-formed expression token by token (small grammar:  *)
(*                     operand, unary sign - / +, binary operator incl. ** and        *)
(*                     comparisons, call f(a, b), list literal [a, b], grouping, lag  *)
(*                     suffix x(k-1)).  The shortest expressions are a lone operand   *)
(*                     (`x`, `2.5`) and a signed lone operand (`-x`, `+nan`).         *)
(*   Rename(m)         replace_token_from_lookup(text, dict(m))                       *)
(*   RenameOne(a, b)   replace_token(text, a, b)                                      *)
(*   RenameVia(r, m)   the same renaming reached through the callers named in C13's   *)
(*                     anchor: r = "equation": Equation(lhs, rhs=text)                *)
(*                     .ReplaceTokensFromLookup(dict(m)); r = "block": the equation   *)
(*                     inside an EquationBlock, EquationBlock.ReplaceTokensFromLookup.*)
(*                     r = "shared_block" / "shared_each": the Term objects of the    *)
(*                     text (Equation.ParseString) are handed to TWO equations of one *)
(*                     block, which is renamed through the block / equation after     *)
(*                     equation; every owner must see the map applied exactly once    *)
(*                     (a swap swaps in both, a chain moves one step in both).        *)
(*                     r = "cancel_first" / "cancel_mid": the equation is built term  *)
(*                     by term (Equation.AddTerm, one call per additive term of the   *)
(*                     expression) and holds a cancelled term (AddTerm(CancelName),   *)
(*                     AddTerm(-CancelName): coefficient 0, rendered as nothing)      *)
(*                     before the first / after the first term of the expression;     *)
(*                     renamed through the block / the equation.  The terms that      *)
(*                     follow a cancelled term are renamed like all others.           *)
(*                     The result is the equation's right-hand side.  An Equation may *)
(*                     store its text in a normal form (a leading + or redundant      *)
(*                     brackets of a one- or two-factor term dropped - C12's subject):*)
(*                     the trace specification judges the C13 sentences on the stored *)
(*                     form observed before the call and requires its names to be the *)
(*                     names of the expression.                                       *)
(*   ListNames         list_tokens(text)                                              *)
(*                                                                                    *)
(* PushOp / LagOp / SubstOp / SubstOneOp / NamesOp are the single source of truth:    *)
(* the actions below and the trace specification Tokens_Trace both use them.          *)
(* A renaming map is a sequence of [from, to] pairs with distinct `from` (the order   *)
(* is the insertion order of the Python dict the driver builds).                      *)
(*                                                                                    *)
(* What is a NAME is decided by the tokenizer alone.  NumericWords are names that      *)
(* Python's number constructors also read as numbers (float('nan'), float('INF'),     *)
(* complex('j')): for this specification they are names like any other - as the whole *)
(* expression, signed, as keys of the map, as images and as bystanders.  Blanks are    *)
(* not tokens: the driver renders every expression in several layouts (dense, spaced, *)
(* untokenize style, blank-padded at both ends) and each must give the same tokens.   *)
(*                                                                                    *)
(* Line structure.  The tokenizer does report two kinds of line ends, and so does this *)
(* specification: NL, a line break inside brackets (after a comma, a binary operator   *)
(* or the opening bracket: `[a, b,<NL> c]`, `(a<NL> + b)`, `f(a,<NL> b)`) which does   *)
(* not end the expression, and NEWLINE, which separates the complete equations of a    *)
(* block (`y = x<NEWLINE>x = 2`).  Both are tokens [kind, "NL"] of the sequence; no    *)
(* renaming touches them.  A backslash continuation is no token: it is a layout of the *)
(* driver, like blanks.                                                                *)
EXTENDS Integers, Sequences, FiniteSets, TLC

CONSTANTS
    Names,          \* NAME texts usable as operands
    Numbers,        \* NUMBER texts usable as operands
    Strings,        \* STRING texts (with their quotes) usable as operands
    BinOps,         \* binary operator texts
    Maps,           \* set of renaming maps (sequences of [from, to])
    OnePairs,       \* set of [target, repl] for RenameOne
    Routes,         \* callers through which Rename is also made: subset of AllRoutes
    MaxUnits,       \* budget of Push/Lag steps (closing brackets are free)
    MinUnits,       \* calls are made on expressions of at least this many steps (0 except in -simulate)
    MaxDepth,       \* bound on bracket nesting
    MaxNL,          \* bound on line breaks inside brackets (NL tokens); 0: none
    MaxLines,       \* bound on the number of logical lines (NEWLINE separated); 1: a single expression
    MaxActs,        \* number of Rename/RenameOne/ListNames calls on one expression
    Signs,          \* unary sign texts usable before an operand: subset of {"-", "+"}
    AllowCall, AllowList, AllowGroup, AllowLag

Tok(k, t) == [kind |-> k, text |-> t]
IsName(t) == t.kind = "NAME"
AllRoutes == {"equation", "block", "shared_block", "shared_each", "cancel_first", "cancel_mid"}
TermwiseRoutes == {"cancel_first", "cancel_mid"}    \* equation built by AddTerm, with a cancelled term
CancelName == "m_x"                                 \* the name added and subtracted again
SharedRoutes == {"shared_block", "shared_each"}     \* two equations built from the same Term objects
TokNL == Tok("NL", "NL")                \* line break inside brackets
TokNewline == Tok("NEWLINE", "NL")      \* end of a logical line that is followed by another one

----------------------------------------------------------------------------
(* two fixed integer valuations of every name the instances use *)
Vals == << [x |-> 6,  x_1 |-> 3, xx |-> 5,  m_x |-> 2, k |-> 4,  H__x |-> 7,
            inf |-> 8,  nan |-> 9, NaN |-> 10, Infinity |-> 11, INF |-> 12, j |-> 13],
           [x |-> -4, x_1 |-> 2, xx |-> -3, m_x |-> 7, k |-> -5, H__x |-> 3,
            inf |-> -6, nan |-> 4, NaN |-> -7, Infinity |-> 5,  INF |-> -8, j |-> 6] >>
Universe == DOMAIN Vals[1]

(* NAME tokens that float() / complex() would also accept as the text of a number *)
NumericWords == {"inf", "nan", "NaN", "Infinity", "INF", "j"}

ASSUME Names \subseteq Universe
ASSUME NumericWords \subseteq Universe
ASSUME Signs \subseteq {"-", "+"}
ASSUME Routes \subseteq AllRoutes

(* integer literals of the arithmetic fragment *)
IntLit(s) == CASE s = "1" -> 1 [] s = "0x1f" -> 31 [] s = "2" -> 2 [] OTHER -> 0
IntLits == {"1", "0x1f", "2"}
ArithOps == {"+", "-", "*"}

----------------------------------------------------------------------------
(* grammar: st = [toks, stack, expect, units, nl, lines]                     *)
(*   expect: "operand"  an operand (or a unary sign, or an opening bracket)  *)
(*           "first"    as "operand", or the closing bracket of f() / []     *)
(*           "nounary"  an operand, no further unary sign                    *)
(*           "operator" a binary operator, a comma, a closer, a call, a lag  *)
(*   stack: sequence of "call" / "list" / "group"                            *)
(*   nl, lines: NL tokens pushed so far / logical lines begun so far         *)
St0 == [toks |-> << >>, stack |-> << >>, expect |-> "operand", units |-> 0, nl |-> 0, lines |-> 1]

Top(st) == st.stack[Len(st.stack)]
Pop(s) == SubSeq(s, 1, Len(s) - 1)
LastIsName(st) == st.toks # << >> /\ IsName(st.toks[Len(st.toks)])
Closer(sym) == IF sym = "list" THEN "]" ELSE ")"

WantsOperand(st) == st.expect \in {"operand", "first", "nounary"}
IsSign(t) == t.kind = "OP" /\ t.text \in Signs

LastTok(st) == st.toks[Len(st.toks)]

CanPush(st, t) ==
    \/ /\ t = TokNL                      \* inside brackets, after a comma / binary operator / opening bracket
       /\ st.nl < MaxNL
       /\ WantsOperand(st) /\ st.expect # "nounary"
       /\ st.stack # << >>
       /\ st.toks # << >> /\ LastTok(st).kind = "OP"
    \/ /\ t = TokNewline                 \* a complete equation ends, another one follows
       /\ st.lines < MaxLines
       /\ st.expect = "operator" /\ st.stack = << >>
    \/ /\ WantsOperand(st)
       /\ \/ t.kind = "NAME" /\ t.text \in Names
          \/ t.kind = "NUMBER" /\ t.text \in Numbers
          \/ t.kind = "STRING" /\ t.text \in Strings
          \/ IsSign(t) /\ st.expect # "nounary"
          \/ t = Tok("OP", "[") /\ AllowList /\ Len(st.stack) < MaxDepth
          \/ t = Tok("OP", "(") /\ AllowGroup /\ Len(st.stack) < MaxDepth
          \/ st.expect = "first" /\ t = Tok("OP", Closer(Top(st)))
    \/ /\ st.expect = "operator"
       /\ \/ t.kind = "OP" /\ t.text \in BinOps
          \/ t = Tok("OP", "(") /\ AllowCall /\ LastIsName(st) /\ Len(st.stack) < MaxDepth
          \/ t = Tok("OP", ",") /\ st.stack # << >> /\ Top(st) \in {"call", "list"}
          \/ st.stack # << >> /\ t = Tok("OP", Closer(Top(st)))

IsCloser(st, t) == st.stack # << >> /\ t = Tok("OP", Closer(Top(st)))
Cost(st, t) == IF IsCloser(st, t) \/ t = TokNL \/ t = TokNewline THEN 0 ELSE 1

PushOp(st, t) ==
    LET ts == Append(st.toks, t)
        u  == st.units + Cost(st, t)
        Mk(stk, ex) == [st EXCEPT !.toks = ts, !.stack = stk, !.expect = ex, !.units = u]
    IN IF t = TokNL THEN [st EXCEPT !.toks = ts, !.nl = @ + 1]
       ELSE IF t = TokNewline THEN [st EXCEPT !.toks = ts, !.expect = "operand", !.lines = @ + 1]
       ELSE IF IsCloser(st, t) THEN Mk(Pop(st.stack), "operator")
       ELSE IF WantsOperand(st)
         THEN CASE IsSign(t)          -> Mk(st.stack, "nounary")
                [] t = Tok("OP", "[") -> Mk(Append(st.stack, "list"), "first")
                [] t = Tok("OP", "(") -> Mk(Append(st.stack, "group"), "operand")
                [] OTHER              -> Mk(st.stack, "operator")
       ELSE CASE t = Tok("OP", "(") -> Mk(Append(st.stack, "call"), "first")
              [] OTHER              -> Mk(st.stack, "operand")

(* the lag suffix  x(k-1)  as one step *)
LagSuffix == << Tok("OP", "("), Tok("NAME", "k"), Tok("OP", "-"), Tok("NUMBER", "1"), Tok("OP", ")") >>
CanLag(st) == AllowLag /\ st.expect = "operator" /\ LastIsName(st)
LagOp(st) == [st EXCEPT !.toks = @ \o LagSuffix, !.units = @ + 1]

Complete(st) == st.stack = << >> /\ st.expect = "operator"

(* every token any instance can produce *)
Alphabet == { Tok("NAME", n) : n \in Names } \cup { Tok("NUMBER", n) : n \in Numbers }
            \cup { Tok("STRING", s) : s \in Strings }
            \cup { Tok("OP", o) : o \in BinOps \cup Signs \cup {"(", ")", "[", "]", ","} }
            \cup (IF MaxNL > 0 THEN {TokNL} ELSE {}) \cup (IF MaxLines > 1 THEN {TokNewline} ELSE {})

(* membership of a whole token sequence in the grammar (used by the trace spec): the   *)
(* lag suffix is accepted through the call rule when k, "-" and 1 are in the alphabet. *)
RECURSIVE Accepts(_, _)
Accepts(st, ts) ==
    IF ts = << >> THEN Complete(st)
    ELSE CanPush(st, Head(ts)) /\ Accepts(PushOp(st, Head(ts)), Tail(ts))

----------------------------------------------------------------------------
(* renaming maps *)
InDom(m, n) == \E i \in 1..Len(m) : m[i].from = n
MapApply(m, n) == IF InDom(m, n) THEN m[CHOOSE i \in 1..Len(m) : m[i].from = n].to ELSE n
WellFormedMap(m) == \A i, j \in 1..Len(m) : m[i].from = m[j].from => i = j

ASSUME \A m \in Maps : WellFormedMap(m)

(* replace_token_from_lookup: every NAME token whose text is a key is replaced by the   *)
(* value of that key, all keys looked up in the ORIGINAL token (simultaneous)           *)
SubstOp(ts, m) ==
    [i \in 1..Len(ts) |-> IF IsName(ts[i]) /\ InDom(m, ts[i].text)
                          THEN Tok("NAME", MapApply(m, ts[i].text)) ELSE ts[i]]

(* replace_token *)
SubstOneOp(ts, a, b) == SubstOp(ts, << [from |-> a, to |-> b] >>)

(* list_tokens *)
NamesOp(ts) == LET ns == SelectSeq(ts, IsName) IN [i \in 1..Len(ns) |-> ns[i].text]

(* what tokenize.untokenize makes of (type, text) pairs: a blank after NAME and NUMBER, *)
(* line ends kept (written <NL> here and by the driver)                                *)
RECURSIVE UntokText(_)
UntokText(ts) ==
    IF ts = << >> THEN ""
    ELSE (IF Head(ts).kind \in {"NL", "NEWLINE"} THEN "<NL>" ELSE Head(ts).text)
         \o (IF Head(ts).kind \in {"NAME", "NUMBER"} THEN " " ELSE "") \o UntokText(Tail(ts))

----------------------------------------------------------------------------
(* value of the arithmetic fragment: names, integer literals, + - * (unary signs        *)
(* allowed), no brackets: a signed sum of products                                      *)
Arith(ts) ==
    /\ ts # << >>
    /\ \A i \in 1..Len(ts) :
         \/ ts[i].kind = "NAME" /\ ts[i].text \in Universe
         \/ ts[i].kind = "NUMBER" /\ ts[i].text \in IntLits
         \/ ts[i].kind = "OP" /\ ts[i].text \in ArithOps

AtomVal(t, v) == IF t.kind = "NAME" THEN v[t.text] ELSE IntLit(t.text)

(* acc = [sum, prod, want]; want = TRUE when an operand is expected (- / + are then unary) *)
RECURSIVE EvalFrom(_, _, _)
EvalFrom(ts, v, acc) ==
    IF ts = << >> THEN acc.sum + acc.prod
    ELSE LET t == Head(ts) IN
         IF t.kind # "OP"
           THEN EvalFrom(Tail(ts), v, [acc EXCEPT !.prod = @ * AtomVal(t, v), !.want = FALSE])
         ELSE IF acc.want      \* unary sign
           THEN EvalFrom(Tail(ts), v, [acc EXCEPT !.prod = IF t.text = "-" THEN 0 - @ ELSE @])
         ELSE IF t.text = "*"
           THEN EvalFrom(Tail(ts), v, [acc EXCEPT !.want = TRUE])
         ELSE EvalFrom(Tail(ts), v, [sum |-> acc.sum + acc.prod,
                                     prod |-> IF t.text = "-" THEN -1 ELSE 1, want |-> TRUE])

Eval(ts, v) == EvalFrom(ts, v, [sum |-> 0, prod |-> 1, want |-> TRUE])

NameSet(ts) == { ts[i].text : i \in { j \in 1..Len(ts) : IsName(ts[j]) } }

(* the renaming does not merge two distinct names of the expression *)
InjectiveOn(m, S) == \A a, b \in S : MapApply(m, a) = MapApply(m, b) => a = b

(* the correspondingly renamed environment: the new name of n carries the value of n *)
RenEnv(m, S, v) ==
    [n \in Universe |-> IF \E a \in S : MapApply(m, a) = n
                        THEN v[CHOOSE a \in S : MapApply(m, a) = n] ELSE v[n]]

----------------------------------------------------------------------------
VARIABLES mode,     \* "build" | "done"
          st,       \* grammar state; st.toks is the expression
          acts,     \* calls made on the expression so far (history)
          ren,      \* map of the last Rename / RenameOne
          res,      \* token sequence returned by the last Rename / RenameOne
          names     \* list returned by the last ListNames

vars == << mode, st, acts, ren, res, names >>
toks == st.toks

NoAct == [kind |-> "none", map |-> << >>, target |-> "", repl |-> "", route |-> ""]
LastAct == IF acts = << >> THEN NoAct ELSE acts[Len(acts)]

Init == /\ mode = "build" /\ st = St0 /\ acts = << >> /\ ren = << >> /\ res = << >> /\ names = << >>

Push(t) ==
    /\ mode = "build"
    /\ CanPush(st, t)
    /\ st.units + Cost(st, t) <= MaxUnits
    /\ st' = PushOp(st, t)
    /\ UNCHANGED << mode, acts, ren, res, names >>

Lag ==
    /\ mode = "build"
    /\ CanLag(st)
    /\ st.units + 1 <= MaxUnits
    /\ st' = LagOp(st)
    /\ UNCHANGED << mode, acts, ren, res, names >>

Ready == Complete(st) /\ st.units >= MinUnits /\ Len(acts) < MaxActs

Rename(m) ==
    /\ Ready
    /\ mode' = "done"
    /\ ren' = m
    /\ res' = SubstOp(toks, m)
    /\ acts' = Append(acts, [kind |-> "Rename", map |-> m, target |-> "", repl |-> "", route |-> ""])
    /\ UNCHANGED << st, names >>

(* one equation: a block of several logical lines is not a right-hand side *)
OneLine(ts) == \A i \in 1..Len(ts) : ts[i].kind # "NEWLINE"

RenameVia(r, m) ==
    /\ Ready
    /\ OneLine(toks)
    /\ mode' = "done"
    /\ ren' = m
    /\ res' = SubstOp(toks, m)
    /\ acts' = Append(acts, [kind |-> "RenameVia", map |-> m, target |-> "", repl |-> "", route |-> r])
    /\ UNCHANGED << st, names >>

RenameOne(a, b) ==
    /\ Ready
    /\ mode' = "done"
    /\ ren' = << [from |-> a, to |-> b] >>
    /\ res' = SubstOneOp(toks, a, b)
    /\ acts' = Append(acts, [kind |-> "RenameOne", map |-> << >>, target |-> a, repl |-> b, route |-> ""])
    /\ UNCHANGED << st, names >>

ListNames ==
    /\ Ready
    /\ mode' = "done"
    /\ names' = NamesOp(toks)
    /\ acts' = Append(acts, [kind |-> "ListNames", map |-> << >>, target |-> "", repl |-> "", route |-> ""])
    /\ UNCHANGED << st, ren, res >>

Next == \/ \E t \in Alphabet : Push(t)
        \/ Lag
        \/ \E m \in Maps : Rename(m)
        \/ \E r \in Routes, m \in Maps : RenameVia(r, m)
        \/ \E p \in OnePairs : RenameOne(p.target, p.repl)
        \/ ListNames

Spec == Init /\ [][Next]_vars

----------------------------------------------------------------------------
(* C13, stated on a source token sequence ts, a map m and a result r, so that the trace *)
(* specification evaluates the same sentences on observed results.                      *)

(* exactly the whole-identifier occurrences change: same length, and every token that   *)
(* is not a NAME with a requested text is untouched (numbers, strings, longer names)    *)
OnlyWholeNames(ts, m, r) ==
    /\ Len(r) = Len(ts)
    /\ \A i \in 1..Len(ts) : ~(IsName(ts[i]) /\ InDom(m, ts[i].text)) => r[i] = ts[i]

(* every requested occurrence becomes the image of the ORIGINAL name: a swap swaps *)
Simultaneous(ts, m, r) ==
    /\ Len(r) = Len(ts)
    /\ \A i \in 1..Len(ts) : (IsName(ts[i]) /\ InDom(m, ts[i].text))
                                 => r[i] = Tok("NAME", MapApply(m, ts[i].text))

(* the whole expression is one operand, possibly signed: `nan`, `-x`, `2.5` *)
Lone(ts) == Len(ts) = 1 \/ (Len(ts) = 2 /\ ts[1].kind = "OP")

(* entries that send a name to itself are legitimate (a caller that qualifies some names and  *)
(* lists the others unchanged): such an entry requests that the name stays what it is         *)
IdentityEntry(p) == p.from = p.to
AllIdentity(m) == \A i \in 1..Len(m) : IdentityEntry(m[i])      \* includes the empty map
HasIdentity(m) == \E i \in 1..Len(m) : IdentityEntry(m[i])

IsSwap(m) == Len(m) = 2 /\ m[1].from = m[2].to /\ m[2].from = m[1].to /\ m[1].from # m[1].to

MustPreserve(ts, m) == Arith(ts) /\ InjectiveOn(m, NameSet(ts))
ValuePreserved(ts, m, r) ==
    MustPreserve(ts, m) =>
        /\ Arith(r)
        /\ \A i \in 1..2 : Eval(r, RenEnv(m, NameSet(ts), Vals[i])) = Eval(ts, Vals[i])

(* the j-th reported name is the text of the j-th NAME token *)
NameIdx(ts) == { i \in 1..Len(ts) : IsName(ts[i]) }
NthNameIdx(ts, j) == CHOOSE i \in NameIdx(ts) : Cardinality({ h \in NameIdx(ts) : h <= i }) = j
ListIsNamesInOrder(ts, ns) ==
    /\ Len(ns) = Cardinality(NameIdx(ts))
    /\ \A j \in 1..Len(ns) : ns[j] = ts[NthNameIdx(ts, j)].text

Renamed == mode = "done" /\ LastAct.kind \in {"Rename", "RenameOne", "RenameVia"}

C13_OnlyWholeNames == Renamed => OnlyWholeNames(toks, ren, res)

C13_Simultaneous ==
    Renamed => /\ Simultaneous(toks, ren, res)
               /\ IsSwap(ren) => SubstOp(res, ren) = toks      \* swapping twice is the identity
               /\ AllIdentity(ren) => res = toks               \* a map of no-op entries changes nothing

C13_ValuePreserved == Renamed => ValuePreserved(toks, ren, res)

C13_ListIsNamesInOrder ==
    (mode = "done" /\ LastAct.kind = "ListNames") => ListIsNamesInOrder(toks, names)

TypeOK == /\ mode \in {"build", "done"}
          /\ st.units <= MaxUnits
          /\ Len(st.stack) <= MaxDepth
          /\ Len(acts) <= MaxActs
          /\ st.nl <= MaxNL /\ st.lines <= MaxLines
=============================================================================
