SPECIFICATION Spec
CONSTANTS
  Leads <- MC_Leads
  Bodies <- MC_BodiesAll
  SignForms <- MC_SignsAll
  JoinElems <- MC_JoinElems
  MaxTerms = 1
  MaxJoin = 0
  AsFound_BlobMerge = FALSE
INVARIANT TypeOK
INVARIANT C12_ValuePreserved
INVARIANT C12_RendersValid
CONSTRAINT Emit
CHECK_DEADLOCK FALSE
