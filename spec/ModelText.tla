------------------------------ MODULE ModelText ------------------------------
(* sfc_models/models.py: Model._CreateFinalEquations / _FinalEquationFormatting, followed *)
(* by EquationParser.ParseString inside Model.main().                                     *)
(*                                                                                        *)
(* The model writes one row  "name = rhs  # [code] description"  per variable; rows that  *)
(* the model itself tagged as exogenous go below the line "# Exogenous Variables", then   *)
(* "MaxTime = n" and "Err_Tolerance=e".  The user's free text reaches the rows through    *)
(* SLOTS: the description given to AddVariable for a simultaneous (endo), lagged (lag),   *)
(* exogenous (exo) or decorative (deco) variable, and sector long names, which the        *)
(* library embeds in descriptions of its own ("Supply from <LongName>"); long names that  *)
(* reach no row are "hidden" slots.                                                       *)
(*                                                                                        *)
(* Actions: Describe(slot, class) - the user gives a slot a free text of a class (plain   *)
(* by default); Main - the model writes its text (TextOf) and the parser reads it (the    *)
(* variables of Parser then hold the parser's state and hist holds the text, so Parser's  *)
(* history invariants C14_* speak about the model's text).                                *)
(* C14_DescriptionsInert: whatever the classes of the free texts, every slot variable is  *)
(* in the list of its role and the parser's state equals that of the all-plain model.     *)
EXTENDS Parser

CONSTANTS SlotSeq,        \* sequence of [id, role, v, r] in the order of the rows of the text
          DescClasses,    \* classes of free text a slot can be given (besides "plain")
          MaxDescribed,   \* bound on the number of slots with a non-plain text
          ModelMaxTime, ModelErrTol

VARIABLES desc            \* slot id -> class of its free text
mvars == << vars, desc >>

SlotIds == { SlotSeq[i].id : i \in 1..Len(SlotSeq) }
Roles == {"endo", "lag", "exo", "deco", "hidden"}
ASSUME /\ \A i \in 1..Len(SlotSeq) : SlotSeq[i].role \in Roles
       /\ DescClasses \subseteq CommentClasses \ {"none", "plain"}

MF(k, v, r, c, sp) == [kind |-> k, v |-> v, r |-> r, cc |-> c, sp |-> sp]

(* a decorative variable is an ordinary equation of the text; a lag is written in the  *)
(* tokenizer-spaced form                                                               *)
RowForm(s, c) == IF s.role = "lag" THEN MF("lag3", s.v, s.r, c, "one") ELSE MF("eq", s.v, s.r, c, "one")

RECURSIVE RowsOf(_, _, _)
RowsOf(d, n, roles) ==
    IF n = 0 THEN << >>
    ELSE LET s == SlotSeq[n] IN
         IF s.role \in roles THEN Append(RowsOf(d, n - 1, roles), RowForm(s, d[s.id]))
         ELSE RowsOf(d, n - 1, roles)

TextOf(d) == RowsOf(d, Len(SlotSeq), {"endo", "lag", "deco"})
             \o << MF("marker", "", "", "none", "one") >>
             \o RowsOf(d, Len(SlotSeq), {"exo"})
             \o << MF("maxtime", "MaxTime", ModelMaxTime, "none", "one"),
                   MF("errtol", "Err_Tolerance", ModelErrTol, "none", "tight") >>

MainOp(d) == FinishOp(RunLines(S0, TextOf(d)))

PlainDesc == [s \in SlotIds |-> "plain"]
NumDescribed == Cardinality({ s \in SlotIds : desc[s] # "plain" })

----------------------------------------------------------------------------
MInit == Init /\ desc = PlainDesc

Describe(s, c) == /\ ~done
                  /\ desc[s] = "plain"
                  /\ NumDescribed < MaxDescribed
                  /\ desc' = [desc EXCEPT ![s] = c]
                  /\ UNCHANGED vars

Main == /\ ~done
        /\ hist' = TextOf(desc)
        /\ Become(MainOp(desc))
        /\ done' = TRUE
        /\ UNCHANGED << desc, blocks >>

MNext == \/ \E s \in SlotIds, c \in DescClasses : Describe(s, c)
         \/ Main

MSpec == MInit /\ [][MNext]_mvars

----------------------------------------------------------------------------
InList(lst, v) == \E i \in 1..Len(lst) : lst[i].var = v

(* free text of any class in any slot changes neither the class of a variable nor anything else *)
C14_DescriptionsInert ==
    done =>
      /\ Cur = MainOp(PlainDesc)
      /\ \A i \in 1..Len(SlotSeq) :
           LET s == SlotSeq[i] IN
           /\ s.role \in {"endo", "deco"} =>
                Entry(s.v, s.r) \in Range(Endogenous) /\ ~InList(Lagged, s.v) /\ ~InList(Exogenous, s.v)
           /\ s.role = "lag" =>
                Entry(s.v, s.r) \in Range(Lagged) /\ ~InList(Endogenous, s.v) /\ ~InList(Exogenous, s.v)
           /\ s.role = "exo" =>
                Entry(s.v, s.r) \in Range(Exogenous) /\ ~InList(Endogenous, s.v) /\ ~InList(Lagged, s.v)

MTypeOK == /\ desc \in [SlotIds -> DescClasses \cup {"plain"}]
           /\ NumDescribed <= MaxDescribed
           /\ done \in BOOLEAN
=============================================================================
