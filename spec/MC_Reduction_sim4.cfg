SPECIFICATION Spec
CONSTANTS
  Vars <- MC_Vars4
  KindsAt <- MC_KindsAll4
  ICsAt <- MC_ICsAll4
  LineOK <- MC_LineAny
  ExoPaths <- MC_ExoPaths
  ConstVal = 5
  MinVars = 4
  MaxK = 2
  SteadyT = 6
  SolveOK <- MC_SolveThorough
  EditOK <- MC_EditNone
  AsFound_SubstitutesVarWithIC = FALSE
INVARIANT TypeOK
INVARIANT C03_SameSolution
INVARIANT C03_Partition
INVARIANT NoSpuriousLoop
INVARIANT OrigSolvable
CONSTRAINT Emit
CHECK_DEADLOCK FALSE
