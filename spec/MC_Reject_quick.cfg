SPECIFICATION Spec
CONSTANTS
  MaxBefore = 2
  MaxAfter = 1
  MaxBeforeMarket = 0
INVARIANT TypeOK
INVARIANT C11_RejectsInvalid
CONSTRAINT Emit
CHECK_DEADLOCK FALSE
