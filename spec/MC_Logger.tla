----------------------------- MODULE MC_Logger -----------------------------
(* Bounded instances of Logger and behaviour emission.                      *)
EXTENDS Logger, LoggerConsts, Json

(* write-rule instance: every behaviour starts with Register("log") *)
StartsRegistered == Len(hist) >= 1 => (hist[1].a = "Register" /\ hist[1].lg = "log")

(* every maximal behaviour is printed once, as JSON, for the replay driver *)
Terminal == Len(hist) = MaxHist
Emit == Terminal => PrintT(<< "BEH", ToJson([hist |-> hist]) >>)
=============================================================================
