----------------------------- MODULE Book_Trace -----------------------------
(* Trace validation for C09.  "Book" events carry a grid case and the series the exact     *)
(* oracle obtained from the equations the real builder generated: TLC re-runs the book's    *)
(* recursion (StepOp) and compares rational by rational.  "BookOff" events are off-grid      *)
(* cases (random parameters; rationals too large for TLC) judged by the Python closed form,  *)
(* which the harness first checks against TLC's own output on every grid case.               *)
EXTENDS Book, Json, IOUtils

Log == ndJsonDeserialize(IOEnv.TRACE_FILE)
VARIABLES l, fails
tvars == << vars, l, fails >>

RECURSIVE Run(_, _, _, _)
Run(cs, kk, ss, n) ==
    IF kk > n THEN << >>
    ELSE LET r == StepOp(cs, kk, ss)
         IN << r >> \o Run(cs, kk + 1, [H |-> r.H, YD |-> r.YD, B |-> r.B], n)

SeriesAgree(cs, obs) ==
    LET h == Run(cs, 1, Start(cs), Len(obs))
    IN \A i \in 1..Len(obs) :
         /\ RNorm(obs[i].Y) = h[i].Y /\ RNorm(obs[i].T) = h[i].T /\ RNorm(obs[i].YD) = h[i].YD
         /\ RNorm(obs[i].C) = h[i].C /\ RNorm(obs[i].H) = h[i].H
         /\ (cs.model = "PC" => (RNorm(obs[i].B) = h[i].B /\ RNorm(obs[i].M) = h[i].M))

RECURSIVE JoinSet(_)
JoinSet(S) == IF S = {} THEN "" ELSE LET x == CHOOSE y \in S : TRUE IN x \o "," \o JoinSet(S \ {x})

TraceInit == /\ c = (CHOOSE x \in Cases : TRUE) /\ k = 0 /\ hist = << >> /\ s = [H |-> RZero, YD |-> RZero, B |-> RZero]
             /\ l = 1 /\ fails = {}

Common(e) ==
    (IF e.built /\ e.solver_returned /\ ~e.solver_close THEN {"C09_SolverWithinTolerance"} ELSE {})
    \cup (IF ~e.built THEN {"C09_BuilderFails"} ELSE {})

TraceNext ==
    /\ l <= Len(Log)
    /\ l' = l + 1
    /\ UNCHANGED vars
    /\ LET e == Log[l] IN
       \/ /\ e.ev = "Book"
          /\ fails' = fails \cup Common(e)
                \cup (IF e.built /\ e.decided /\ ~SeriesAgree(e.case, e.series) THEN {"C09_ExactMatchesRecursion"} ELSE {})
                \cup (IF e.built /\ ~e.decided THEN {"undecided"} ELSE {})
       \/ /\ e.ev = "BookOff"
          /\ fails' = fails \cup Common(e)
                \cup (IF e.built /\ e.decided /\ ~e.exact_equal THEN {"C09_ExactMatchesRecursion"} ELSE {})
                \cup (IF e.built /\ ~e.decided THEN {"undecided"} ELSE {})
       \/ /\ e.ev = "Iterative"
          /\ fails' = fails \cup (IF ~e.ran \/ ~e.close THEN {"C09_IterativeSIMAgrees"} ELSE {})
       \/ /\ e.ev = "End"
          /\ PrintT(<< "VERDICT", e.tid, "clauses:" \o JoinSet(fails) >>)
          /\ fails' = {}

TraceSpec == TraceInit /\ [][TraceNext]_tvars
AllConsumed == TLCGet("stats").diameter - 1 = Len(Log)
=============================================================================
