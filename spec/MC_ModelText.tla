---------------------------- MODULE MC_ModelText ----------------------------
(* Bounded instances of ModelText: every assignment of hostile free-text classes to at  *)
(* most MaxDescribed slots (quick: 1, thorough: 2); each is built and run on the real    *)
(* Model by harness/checks/c14.py.                                                       *)
EXTENDS ModelText, ModelTextConsts

RECURSIVE DescCode(_)
DescCode(n) == IF n = 0 THEN ""
               ELSE LET s == SlotSeq[n] IN
                    DescCode(n - 1) \o (IF desc[s.id] = "plain" THEN "" ELSE s.id \o "=" \o desc[s.id] \o ";")

Terminal == done
Emit == Terminal => PrintT(<< "MBEH", DescCode(Len(SlotSeq)) >>)
=============================================================================
