SPECIFICATION Spec
CONSTANTS
  MaxBefore = 2
  MaxAfter = 2
  MaxBeforeMarket = 1
INVARIANT TypeOK
INVARIANT C11_RejectsInvalid
CONSTRAINT Emit
CHECK_DEADLOCK FALSE
