SPECIFICATION TraceSpec
CONSTANTS
  LineForms <- NoForms
  FirstForms <- NoForms
  MaxLines = 1000
  AsFound_MarkerTestedOnRawLine = FALSE
POSTCONDITION AllConsumed
CHECK_DEADLOCK FALSE
