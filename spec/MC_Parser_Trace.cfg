SPECIFICATION TraceSpec
CONSTANTS
  LineForms <- NoForms
  FirstForms <- NoForms
  MaxLines = 1000
  MaxBlocks = 1
  AsFound_MarkerTestedOnRawLine = FALSE
  SlotSeq <- MC_SlotSeq
  DescClasses <- MC_DescClasses
  MaxDescribed = 1000
  ModelMaxTime = "2"
  ModelErrTol = "1e-6"
POSTCONDITION AllConsumed
CHECK_DEADLOCK FALSE
