--------------------------- MODULE MC_SolverForms ---------------------------
EXTENDS SolverForms, Json
MC_AllForms == AllForms
MC_AllPositions == AllPositions
MC_QuickSources == {"sim", "exo"}
MC_AllSources == AllSources
Terminal == phase = "reduced"
Emit == Terminal => PrintT(<< "BEH", ToJson([sys |-> sys, subst |-> subst]) >>)
=============================================================================
