--------------------------- MODULE ModelBlueprints ---------------------------
(* The bounded family of model topologies ("blueprints") explored by TLC and rebuilt   *)
(* with the real classes.  A blueprint lists, in canonical order, the sectors of each  *)
(* country; `free` is the set of sectors whose declaration position is unconstrained.  *)
EXTENDS Integers, Sequences, FiniteSets

Sd(cc, code, kind) ==
    [cc |-> cc, code |-> code, kind |-> kind, good |-> "GOOD", lab |-> "LAB", taxto |-> "GOV",
     issuer |-> "GOV", margin |-> FALSE, tre |-> 0, trector |-> FALSE, mkts |-> << >>,
     aw |-> << >>, gift |-> FALSE, extra |-> << >>, late |-> << >>, params |-> << >>,
     taxable |-> FALSE,    \* TRUE: the user sets IsTaxable on a sector whose class is not taxable by default
     zerorate |-> FALSE]   \* TRUE (a TaxFlow): the object-level tax rate is exactly zero (the constructor's default)

Bp(name, countries, sectors, free) ==
    [name |-> name, countries |-> countries, external |-> "none", sectors |-> sectors, free |-> free,
     freeq |-> free,     \* the (smaller) set used by the quick instance
     flows |-> << >>, suppliers |-> << >>, exo |-> << >>, wellformed |-> TRUE, gold |-> FALSE,
     book |-> ""]   \* "module:Class" when the model is put together by a bundled gl_book builder, not by the driver

C1 == << [code |-> "C", cur |-> "C"] >>
Exo(s, v) == [s |-> s, var |-> v]

\* ---- one country, consolidated government ------------------------------------------
SIM == [Bp("SIM", C1,
           << Sd("C", "GOV", "ConsolidatedGovernment"), Sd("C", "HH", "Household"),
              Sd("C", "BUS", "FixedMarginBusiness"), Sd("C", "TF", "TaxFlow"),
              Sd("C", "LAB", "Market"), Sd("C", "GOOD", "Market") >>, 1..6)
        EXCEPT !.freeq = {3, 4, 5, 6}, !.exo = << Exo(1, "DEM_GOOD") >>]

\* the government is the user's own bare Sector (as in the package's external-sector example), taxes are paid to it
SIMPLAIN == [SIM EXCEPT !.name = "SIMPLAIN", !.freeq = {1, 4}, !.sectors[1].kind = "PlainGovernment"]

\* the government is declared through the library's alias class DoNothingGovernment
SIMDN == [SIM EXCEPT !.name = "SIMDN", !.freeq = {1, 2, 6}, !.sectors[1].kind = "DoNothingGovernment"]

SIMEX == [SIM EXCEPT !.freeq = {2, 3, 5}, !.name = "SIMEX", !.sectors[2].kind = "HouseholdWithExpectations"]

SIMCAP == [Bp("SIMCAP", C1,
           << Sd("C", "GOV", "ConsolidatedGovernment"), Sd("C", "HH", "Household"),
              [Sd("C", "BUS", "FixedMarginBusiness") EXCEPT !.margin = TRUE], Sd("C", "CAP", "Capitalists"),
              Sd("C", "TF", "TaxFlow"), Sd("C", "LAB", "Market"), Sd("C", "GOOD", "Market") >>, {3, 4, 5, 6})
        EXCEPT !.freeq = {3, 4, 6}, !.exo = << Exo(1, "DEM_GOOD") >>]

SIMMARGIN == [SIM EXCEPT !.freeq = {3, 5}, !.name = "SIMMARGIN", !.sectors[3].margin = TRUE]

SIMMON == [Bp("SIMMON", C1,
           << Sd("C", "GOV", "ConsolidatedGovernment"), Sd("C", "HH", "Household"),
              Sd("C", "BUS", "FixedMarginBusiness"), Sd("C", "TF", "TaxFlow"),
              Sd("C", "LAB", "Market"), Sd("C", "GOOD", "Market"), Sd("C", "MON", "MoneyMarket") >>, {2, 3, 5, 6, 7})
        EXCEPT !.freeq = {3, 7}, !.exo = << Exo(1, "DEM_GOOD") >>]

\* the Treasury itself issues the money (no central bank); the Treasury class declares a money demand of its own
SIMTRE == [Bp("SIMTRE", C1,
           << Sd("C", "TRE", "Treasury"), Sd("C", "HH", "Household"),
              Sd("C", "BUS", "FixedMarginBusiness"), [Sd("C", "TF", "TaxFlow") EXCEPT !.taxto = "TRE"],
              Sd("C", "LAB", "Market"), Sd("C", "GOOD", "Market"), [Sd("C", "MON", "MoneyMarket") EXCEPT !.issuer = "TRE"] >>,
           {1, 2, 3, 7})
        EXCEPT !.freeq = {1, 7}, !.exo = << Exo(1, "DEM_GOOD") >>]

\* deposits issued by a consolidated government, household allocates between DEP and MON
SIMDEP == [Bp("SIMDEP", C1,
           << Sd("C", "GOV", "ConsolidatedGovernment"), [Sd("C", "HH", "Household") EXCEPT !.aw = << "DEP" >>],
              Sd("C", "BUS", "FixedMarginBusiness"), Sd("C", "TF", "TaxFlow"),
              Sd("C", "LAB", "Market"), Sd("C", "GOOD", "Market"), Sd("C", "MON", "MoneyMarket"),
              Sd("C", "DEP", "DepositMarket") >>, {2, 3, 7, 8})
        EXCEPT !.freeq = {2, 8}, !.exo = << Exo(1, "DEM_GOOD"), Exo(8, "r") >>]

\* a fund (the user's bare Sector) whose deposit holding is declared as a placeholder and then given as an exogenous path,
\* and whose money holding is left to the MoneyMarket's default; MON, DEP and the fund are declared in every order
FUNDDEP == [Bp("FUNDDEP", C1,
           << Sd("C", "GOV", "ConsolidatedGovernment"), [Sd("C", "HH", "Household") EXCEPT !.aw = << "DEP" >>],
              Sd("C", "BUS", "FixedMarginBusiness"), Sd("C", "TF", "TaxFlow"),
              Sd("C", "LAB", "Market"), Sd("C", "GOOD", "Market"), Sd("C", "MON", "MoneyMarket"),
              Sd("C", "DEP", "DepositMarket"), [Sd("C", "FUND", "BareSector") EXCEPT !.extra = << "DEM_DEP" >>] >>, {7, 8, 9})
        EXCEPT !.exo = << Exo(1, "DEM_GOOD"), Exo(8, "r"), Exo(9, "DEM_DEP") >>]

\* ---- treasury + central bank (model PC) -----------------------------------------------
PC == [Bp("PC", C1,
           << Sd("C", "TRE", "Treasury"), [Sd("C", "CB", "CentralBank") EXCEPT !.tre = 1],
              [Sd("C", "HH", "Household") EXCEPT !.aw = << "DEP" >>], Sd("C", "BUS", "FixedMarginBusiness"),
              [Sd("C", "TF", "TaxFlow") EXCEPT !.taxto = "TRE"], Sd("C", "LAB", "Market"), Sd("C", "GOOD", "Market"),
              [Sd("C", "MON", "MoneyMarket") EXCEPT !.issuer = "CB"],
              [Sd("C", "DEP", "DepositMarket") EXCEPT !.issuer = "TRE"] >>, {2, 4, 8, 9})
        EXCEPT !.freeq = {2, 9}, !.exo = << Exo(1, "DEM_GOOD"), Exo(9, "r") >>]

\* ---- two goods, multi-output firm -------------------------------------------------------
MULTI == [Bp("MULTI", C1,
           << [Sd("C", "GOV", "ConsolidatedGovernment") EXCEPT !.extra = << "DEM_FOOD" >>],
              Sd("C", "HH", "Household"),
              Sd("C", "GOOD", "Market"), Sd("C", "FOOD", "Market"),
              [Sd("C", "BUS", "FixedMarginBusinessMultiOutput") EXCEPT !.mkts = << 3, 4 >>],
              Sd("C", "TF", "TaxFlow"), Sd("C", "LAB", "Market") >>, {2, 5, 6, 7})
        EXCEPT !.freeq = {5, 7}, !.exo = << Exo(1, "DEM_GOOD"), Exo(1, "DEM_FOOD") >>,
               !.suppliers = << [mkt |-> 3, sup |-> 5, rule |-> FALSE], [mkt |-> 4, sup |-> 5, rule |-> FALSE] >>]

\* ---- federated zone: central government region + two regions sharing the currency --------
C3 == << [code |-> "G", cur |-> "X"], [code |-> "N", cur |-> "X"], [code |-> "S", cur |-> "X"] >>
FED == [Bp("FED", C3,
           << [Sd("G", "GOV", "ConsolidatedGovernment") EXCEPT !.extra = << "DEM_N_GOOD", "DEM_S_GOOD" >>],
              Sd("G", "TF", "TaxFlow"),
              Sd("N", "HH", "Household"), Sd("N", "BUS", "FixedMarginBusiness"),
              Sd("N", "LAB", "Market"), Sd("N", "GOOD", "Market"),
              Sd("S", "HH", "Household"), Sd("S", "BUS", "FixedMarginBusiness"),
              Sd("S", "LAB", "Market"), Sd("S", "GOOD", "Market") >>, {2, 4, 5, 9})
        EXCEPT !.freeq = {4, 9}, !.exo = << Exo(1, "DEM_N_GOOD"), Exo(1, "DEM_S_GOOD") >>]

\* ---- two currencies, external sector, gift in one direction ---------------------------------
C2 == << [code |-> "A", cur |-> "AD"], [code |-> "B", cur |-> "BD"] >>
TwoCountry(name) ==
    Bp(name, C2,
       << Sd("A", "GOV", "ConsolidatedGovernment"), [Sd("A", "HH", "Household") EXCEPT !.gift = TRUE],
          Sd("A", "BUS", "FixedMarginBusiness"), Sd("A", "TF", "TaxFlow"), Sd("A", "LAB", "Market"),
          Sd("A", "GOOD", "Market"),
          Sd("B", "GOV", "ConsolidatedGovernment"), [Sd("B", "HH", "Household") EXCEPT !.gift = TRUE],
          Sd("B", "BUS", "FixedMarginBusiness"), Sd("B", "TF", "TaxFlow"), Sd("B", "LAB", "Market"),
          Sd("B", "GOOD", "Market") >>, {3, 8})
Flow(s, d, v, i1, i2) == [src |-> s, dst |-> d, var |-> v, incs |-> i1, incd |-> i2]

GIFT == [TwoCountry("GIFT") EXCEPT !.freeq = {3, 8}, !.external = "first",
            !.flows = << Flow(2, 8, "GIFT", FALSE, TRUE) >>,
            !.exo = << Exo(1, "DEM_GOOD"), Exo(7, "DEM_GOOD") >>]
GIFT2 == [TwoCountry("GIFT2") EXCEPT !.freeq = {8}, !.external = "last",
            !.flows = << Flow(2, 8, "GIFT", FALSE, TRUE), Flow(8, 2, "GIFT", TRUE, FALSE), Flow(2, 1, "GIFT", TRUE, TRUE) >>,
            !.exo = << Exo(1, "DEM_GOOD"), Exo(7, "DEM_GOOD") >>]
\* B's business also supplies A's goods market (import), residual supplier stays domestic
IMPORT == [TwoCountry("IMPORT") EXCEPT !.freeq = {3, 9}, !.external = "first",
            !.suppliers = << [mkt |-> 6, sup |-> 9, rule |-> TRUE], [mkt |-> 6, sup |-> 3, rule |-> FALSE] >>,
            !.exo = << Exo(1, "DEM_GOOD"), Exo(7, "DEM_GOOD") >>]
\* two-way trade: each business also supplies the other country's goods market (both cross rates A_B and B_A are in use)
IMPORT2 == [IMPORT EXCEPT !.name = "IMPORT2", !.freeq = {6, 12}, !.free = {3, 6, 9, 12},
            !.suppliers = << [mkt |-> 6, sup |-> 9, rule |-> TRUE], [mkt |-> 6, sup |-> 3, rule |-> FALSE],
                             [mkt |-> 12, sup |-> 3, rule |-> TRUE], [mkt |-> 12, sup |-> 9, rule |-> FALSE] >>]
\* the RESIDUAL supplier of A's goods market is B's business; A's own business supplies a fixed share
IMPORTRES == [TwoCountry("IMPORTRES") EXCEPT !.freeq = {9}, !.free = {3, 9}, !.external = "last",
            !.suppliers = << [mkt |-> 6, sup |-> 3, rule |-> TRUE], [mkt |-> 6, sup |-> 9, rule |-> FALSE] >>,
            !.exo = << Exo(1, "DEM_GOOD"), Exo(7, "DEM_GOOD") >>]
NOEXT3 == [IMPORTRES EXCEPT !.name = "NOEXT3", !.external = "none", !.freeq = {}, !.free = {9}, !.wellformed = FALSE]
\* a single country plus an (unused) external sector created last: the country list grows after construction began
SIMX == [SIM EXCEPT !.name = "SIMX", !.external = "last", !.freeq = {3, 6}, !.free = {3, 5, 6}]
\* the same with names requested during construction (a gift variable tied to the household's own lagged wealth)
SIMXG == [SIMX EXCEPT !.name = "SIMXG", !.sectors[2].gift = TRUE]
\* ill-formed: cross-currency flow / supplier without an external sector
NOEXT1 == [TwoCountry("NOEXT1") EXCEPT !.freeq = {}, !.free = {8}, !.flows = << Flow(2, 8, "GIFT", TRUE, TRUE) >>, !.wellformed = FALSE]
NOEXT2 == [TwoCountry("NOEXT2") EXCEPT !.freeq = {}, !.free = {8},
            !.suppliers = << [mkt |-> 6, sup |-> 9, rule |-> TRUE], [mkt |-> 6, sup |-> 3, rule |-> FALSE] >>,
            !.wellformed = FALSE]
\* ill-formed: no supplier for the goods market / two suppliers and no allocation
NOSUP == [Bp("NOSUP", C1, << Sd("C", "GOV", "ConsolidatedGovernment"), Sd("C", "HH", "Household"),
                             Sd("C", "TF", "TaxFlow"), Sd("C", "GOOD", "Market") >>, 1..4)
          EXCEPT !.wellformed = FALSE]
TWOSUP == [Bp("TWOSUP", C1, << Sd("C", "GOV", "ConsolidatedGovernment"), Sd("C", "HH", "Household"),
                               Sd("C", "BUS", "FixedMarginBusiness"), Sd("C", "BUS2", "FixedMarginBusiness"),
                               Sd("C", "TF", "TaxFlow"), Sd("C", "LAB", "Market"), Sd("C", "GOOD", "Market") >>, {3, 4})
          EXCEPT !.wellformed = FALSE]
\* ill-formed: a supplier registered with an allocation rule, no residual supplier, and the fall-back search for one fails
\* (two candidates / none): total supply could not be allocated, the model must be refused
TWOSUPRULE == [TWOSUP EXCEPT !.name = "TWOSUPRULE", !.suppliers = << [mkt |-> 7, sup |-> 4, rule |-> TRUE] >>]
NOSUPRULE == [NOSUP EXCEPT !.name = "NOSUPRULE", !.suppliers = << [mkt |-> 4, sup |-> 2, rule |-> TRUE] >>]


\* ---- renamed twins: other sector / goods / labour codes through the constructor parameters (C18) -------------
Rn(d) == [d EXCEPT !.good = "WID_GET", !.lab = "WORK", !.taxto = "GOVT"]
SIMR == [Bp("SIMR", << [code |-> "ZZ", cur |-> "ZZ"] >>,
           << [Rn(Sd("ZZ", "GOVT", "ConsolidatedGovernment")) EXCEPT !.extra = << "DEM_WID_GET" >>],
              Rn(Sd("ZZ", "HOUSE_1", "Household")), Rn(Sd("ZZ", "FIRM", "FixedMarginBusiness")), Rn(Sd("ZZ", "TX", "TaxFlow")),
              Rn(Sd("ZZ", "WORK", "Market")), Rn(Sd("ZZ", "WID_GET", "Market")) >>, 1..6)
        EXCEPT !.freeq = {3, 5, 6}, !.exo = << Exo(1, "DEM_WID_GET") >>]
SIMEXR == [SIMR EXCEPT !.name = "SIMEXR", !.freeq = {2, 3}, !.sectors[2].kind = "HouseholdWithExpectations", !.sectors[3].margin = TRUE]

\* ---- two economies with different currencies in one model, nothing declared between them (C18) -----------------
JOIN2 == [Bp("JOIN2", C2,
       << Sd("A", "GOV", "ConsolidatedGovernment"), Sd("A", "HH", "Household"),
          Sd("A", "BUS", "FixedMarginBusiness"), Sd("A", "TF", "TaxFlow"), Sd("A", "LAB", "Market"), Sd("A", "GOOD", "Market"),
          Sd("B", "GOV", "ConsolidatedGovernment"), Sd("B", "HH", "HouseholdWithExpectations"),
          [Sd("B", "BUS", "FixedMarginBusiness") EXCEPT !.margin = TRUE], Sd("B", "TF", "TaxFlow"), Sd("B", "LAB", "Market"),
          Sd("B", "GOOD", "Market") >>, {4, 9, 11})
        EXCEPT !.freeq = {4, 11}, !.exo = << Exo(1, "DEM_GOOD"), Exo(7, "DEM_GOOD") >>]
JOIN2X == [JOIN2 EXCEPT !.name = "JOIN2X", !.external = "last", !.freeq = {9}]

\* ---- gold standard: both governments buy / sell gold so that the FX position in their currency is zero ---------
GOLD2 == [TwoCountry("GOLD2") EXCEPT !.external = "first", !.gold = TRUE, !.freeq = {3}, !.free = {3, 8},
            !.sectors[1].kind = "GoldStandardGovernment", !.sectors[7].kind = "GoldStandardGovernment",
            !.flows = << Flow(2, 8, "GIFT", FALSE, TRUE), Flow(8, 2, "GIFT", FALSE, TRUE) >>,
            !.exo = << Exo(1, "DEM_GOOD"), Exo(7, "DEM_GOOD") >>]
\* ill-formed: a gold-standard government without an external sector
GOLDNOEXT == [Bp("GOLDNOEXT", C1, << Sd("C", "GOV", "GoldStandardGovernment"), Sd("C", "HH", "Household"),
                               Sd("C", "BUS", "FixedMarginBusiness"), Sd("C", "TF", "TaxFlow"),
                               Sd("C", "LAB", "Market"), Sd("C", "GOOD", "Market") >>, {3})
          EXCEPT !.wellformed = FALSE]

\* ---- two dividend-paying businesses (two goods) and capitalists in one country ---------------------------------
TWOBUS == [Bp("TWOBUS", C1,
           << [Sd("C", "GOV", "ConsolidatedGovernment") EXCEPT !.extra = << "DEM_FOOD" >>], Sd("C", "HH", "Household"),
              Sd("C", "CAP", "Capitalists"),
              [Sd("C", "BUS1", "FixedMarginBusiness") EXCEPT !.margin = TRUE],
              [Sd("C", "BUS2", "FixedMarginBusiness") EXCEPT !.margin = TRUE, !.good = "FOOD"],
              Sd("C", "TF", "TaxFlow"), Sd("C", "LAB", "Market"), Sd("C", "GOOD", "Market"), Sd("C", "FOOD", "Market") >>, {3, 4, 5})
        EXCEPT !.freeq = {3, 5}, !.exo = << Exo(1, "DEM_GOOD"), Exo(1, "DEM_FOOD") >>]

\* ---- the same flow variable registered twice on one sector (a donor with two recipients) -------------------------
TWOGIFTS == [Bp("TWOGIFTS", C1,
           << Sd("C", "GOV", "ConsolidatedGovernment"), [Sd("C", "HH", "Household") EXCEPT !.gift = TRUE],
              Sd("C", "BUS", "FixedMarginBusiness"), Sd("C", "TF", "TaxFlow"),
              Sd("C", "LAB", "Market"), Sd("C", "GOOD", "Market"), Sd("C", "CAP", "Capitalists") >>, {3, 7})
        EXCEPT !.freeq = {7}, !.exo = << Exo(1, "DEM_GOOD") >>,
               !.flows = << Flow(2, 1, "GIFT", TRUE, TRUE), Flow(2, 7, "GIFT", TRUE, TRUE), Flow(7, 2, "DIV", FALSE, FALSE) >>]

\* ---- a portfolio over three assets: two deposit-like markets and money -------------------------------------------
SIMBOND == [Bp("SIMBOND", C1,
           << Sd("C", "GOV", "ConsolidatedGovernment"), [Sd("C", "HH", "Household") EXCEPT !.aw = << "DEP", "BOND" >>],
              Sd("C", "BUS", "FixedMarginBusiness"), Sd("C", "TF", "TaxFlow"),
              Sd("C", "LAB", "Market"), Sd("C", "GOOD", "Market"), Sd("C", "MON", "MoneyMarket"),
              Sd("C", "DEP", "DepositMarket"), Sd("C", "BOND", "DepositMarket") >>, {2, 8, 9})
        EXCEPT !.freeq = {9}, !.exo = << Exo(1, "DEM_GOOD"), Exo(8, "r"), Exo(9, "r") >>]

\* ---- model REG2 of the book: a central region (treasury, central bank, money, deposits, taxes) and two regions whose ----
\* ---- multi-output businesses also supply the other region's goods market (declared after construction: AddMarket) ----
REG2 == [Bp("REG2", C3,
           << [Sd("G", "TRE", "Treasury") EXCEPT !.extra = << "DEM_N_GOOD", "DEM_S_GOOD" >>],
              [Sd("G", "CB", "CentralBank") EXCEPT !.tre = 1, !.trector = TRUE],
              [Sd("G", "MON", "MoneyMarket") EXCEPT !.issuer = "CB"],
              [Sd("G", "DEP", "DepositMarket") EXCEPT !.issuer = "TRE"],
              [Sd("G", "TF", "TaxFlow") EXCEPT !.taxto = "TRE"],
              [Sd("N", "HH", "Household") EXCEPT !.aw = << "DEP" >>], Sd("N", "GOOD", "Market"),
              [Sd("N", "BUS", "FixedMarginBusinessMultiOutput") EXCEPT !.mkts = << 7 >>, !.late = << 11 >>], Sd("N", "LAB", "Market"),
              [Sd("S", "HH", "Household") EXCEPT !.aw = << "DEP" >>], Sd("S", "GOOD", "Market"),
              [Sd("S", "BUS", "FixedMarginBusinessMultiOutput") EXCEPT !.mkts = << 11 >>, !.late = << 7 >>], Sd("S", "LAB", "Market") >>,
           {5, 9})
        EXCEPT !.freeq = {9}, !.exo = << Exo(1, "DEM_N_GOOD"), Exo(1, "DEM_S_GOOD"), Exo(4, "r") >>,
               !.suppliers = << [mkt |-> 7, sup |-> 12, rule |-> TRUE], [mkt |-> 7, sup |-> 8, rule |-> FALSE],
                                [mkt |-> 11, sup |-> 8, rule |-> TRUE], [mkt |-> 11, sup |-> 12, rule |-> FALSE] >>]

\* ---- the same model as the bundled builder sfc_models.gl_book.chapter6.REG2 declares it (country codes GOV, N, S) ----
ReCC(sd) == [sd EXCEPT !.cc = IF sd.cc = "G" THEN "GOV" ELSE sd.cc,
                       !.params = IF sd.kind = "Household" THEN << "L0", "L1", "L2" >>
                                  ELSE IF sd.code = "GOOD" THEN << "MU" >> ELSE << >>]
REG2BOOK == [REG2 EXCEPT !.name = "REG2BOOK", !.book = "chapter6:REG2", !.free = {}, !.freeq = {},
                         !.countries = << [code |-> "GOV", cur |-> "X"], [code |-> "N", cur |-> "X"], [code |-> "S", cur |-> "X"] >>,
                         !.sectors = [i \in 1..Len(REG2.sectors) |-> ReCC(REG2.sectors[i])]]

\* ---- the chapter 3 / 4 models as the bundled builders declare them ------------------------------------------------------
SIMBOOK == [SIM EXCEPT !.name = "SIMBOOK", !.book = "chapter3:SIM", !.free = {}, !.freeq = {}]
SIMEX1BOOK == [SIMEX EXCEPT !.name = "SIMEX1BOOK", !.book = "chapter3:SIMEX1", !.free = {}, !.freeq = {}]
PCBOOK == [PC EXCEPT !.name = "PCBOOK", !.book = "chapter4:PC", !.free = {}, !.freeq = {},
                     !.sectors[1].params = << "FISCBAL" >>, !.sectors[3].params = << "L0", "L1", "L2" >>]

\* ---- model REG as the bundled builder sfc_models.gl_book.chapter6.REG declares it: one country, two of everything --------
REGBOOK == [Bp("REGBOOK", C1,
           << [Sd("C", "TRE", "Treasury") EXCEPT !.extra = << "DEM_GOOD_N", "DEM_GOOD_S" >>, !.params = << "FISCBAL" >>],
              [Sd("C", "CB", "CentralBank") EXCEPT !.tre = 1, !.trector = TRUE],
              [Sd("C", "HH_N", "Household") EXCEPT !.good = "GOOD_N", !.lab = "LAB_N", !.aw = << "DEP" >>, !.params = << "L0", "L1", "L2" >>],
              [Sd("C", "HH_S", "Household") EXCEPT !.good = "GOOD_S", !.lab = "LAB_S", !.aw = << "DEP" >>, !.params = << "L0", "L1", "L2" >>],
              [Sd("C", "GOOD_N", "Market") EXCEPT !.params = << "MU" >>], [Sd("C", "GOOD_S", "Market") EXCEPT !.params = << "MU" >>],
              [Sd("C", "BUS_N", "FixedMarginBusinessMultiOutput") EXCEPT !.mkts = << 5, 6 >>, !.lab = "LAB_N"],
              [Sd("C", "BUS_S", "FixedMarginBusinessMultiOutput") EXCEPT !.mkts = << 5, 6 >>, !.lab = "LAB_S"],
              [Sd("C", "TF", "TaxFlow") EXCEPT !.taxto = "TRE"], Sd("C", "LAB_S", "Market"), Sd("C", "LAB_N", "Market"),
              [Sd("C", "MON", "MoneyMarket") EXCEPT !.issuer = "CB"], [Sd("C", "DEP", "DepositMarket") EXCEPT !.issuer = "TRE"] >>,
           {})
        EXCEPT !.book = "chapter6:REG", !.exo = << Exo(1, "DEM_GOOD_N"), Exo(1, "DEM_GOOD_S"), Exo(13, "r") >>,
               !.suppliers = << [mkt |-> 5, sup |-> 8, rule |-> TRUE], [mkt |-> 5, sup |-> 7, rule |-> FALSE],
                                [mkt |-> 6, sup |-> 8, rule |-> FALSE], [mkt |-> 6, sup |-> 7, rule |-> TRUE] >>]

\* ---- treasury + gold-standard central bank in A (money, deposits), a simple economy in B, gifts both ways -----------
GOLDCB == [Bp("GOLDCB", C2,
           << Sd("A", "TRE", "Treasury"), [Sd("A", "CB", "GoldStandardCentralBank") EXCEPT !.tre = 1, !.trector = TRUE],
              [Sd("A", "HH", "Household") EXCEPT !.aw = << "DEP" >>, !.gift = TRUE], Sd("A", "BUS", "FixedMarginBusiness"),
              [Sd("A", "TF", "TaxFlow") EXCEPT !.taxto = "TRE"], Sd("A", "LAB", "Market"), Sd("A", "GOOD", "Market"),
              [Sd("A", "MON", "MoneyMarket") EXCEPT !.issuer = "CB"], [Sd("A", "DEP", "DepositMarket") EXCEPT !.issuer = "TRE"],
              Sd("B", "GOV", "ConsolidatedGovernment"), [Sd("B", "HH", "Household") EXCEPT !.gift = TRUE],
              Sd("B", "BUS", "FixedMarginBusiness"), Sd("B", "TF", "TaxFlow"), Sd("B", "LAB", "Market"), Sd("B", "GOOD", "Market") >>,
           {4, 9})
        EXCEPT !.freeq = {9}, !.external = "first", !.gold = TRUE,
               !.flows = << Flow(3, 11, "GIFT", FALSE, TRUE), Flow(11, 3, "GIFT", FALSE, TRUE) >>,
               !.exo = << Exo(1, "DEM_GOOD"), Exo(10, "DEM_GOOD"), Exo(9, "r") >>]

\* the same with B's business also supplying A's goods market (a cross-currency supplier booked through the FX desk);
\* the gold-standard central bank may be declared before or after that market
GOLDCBIMP == [GOLDCB EXCEPT !.name = "GOLDCBIMP", !.free = {2, 4, 7}, !.freeq = {2, 7},
                 !.suppliers = << [mkt |-> 7, sup |-> 12, rule |-> TRUE], [mkt |-> 7, sup |-> 4, rule |-> FALSE] >>]

\* a rest-of-the-world sector inside the ExternalSector country (books kept in the NUMERAIRE) gives to households in two
\* currencies (the same amount variable twice) and receives a gift back
ROWAID == [Bp("ROWAID", C2,
           << Sd("A", "GOV", "ConsolidatedGovernment"), [Sd("A", "HH", "Household") EXCEPT !.gift = TRUE],
              Sd("A", "BUS", "FixedMarginBusiness"), Sd("A", "TF", "TaxFlow"), Sd("A", "LAB", "Market"), Sd("A", "GOOD", "Market"),
              Sd("B", "GOV", "ConsolidatedGovernment"), Sd("B", "HH", "Household"),
              Sd("B", "BUS", "FixedMarginBusiness"), Sd("B", "TF", "TaxFlow"), Sd("B", "LAB", "Market"), Sd("B", "GOOD", "Market"),
              [Sd("EXT", "ROW", "RestOfWorld") EXCEPT !.gift = TRUE] >>, {3, 13})
        EXCEPT !.freeq = {13}, !.external = "first",
               !.flows = << Flow(13, 2, "GIFT", FALSE, TRUE), Flow(13, 8, "GIFT", FALSE, TRUE), Flow(2, 13, "GIFT", TRUE, TRUE) >>,
               !.exo = << Exo(1, "DEM_GOOD"), Exo(7, "DEM_GOOD") >>]

\* ---- three currencies, gifts around the ring A -> B -> C -> A ----------------------------------------------------
C3cur == << [code |-> "A", cur |-> "AD"], [code |-> "B", cur |-> "BD"], [code |-> "K", cur |-> "KD"] >>
Econ(cc) == << Sd(cc, "GOV", "ConsolidatedGovernment"), [Sd(cc, "HH", "Household") EXCEPT !.gift = TRUE],
               Sd(cc, "BUS", "FixedMarginBusiness"), Sd(cc, "TF", "TaxFlow"), Sd(cc, "LAB", "Market"), Sd(cc, "GOOD", "Market") >>
RING3 == [Bp("RING3", C3cur, Econ("A") \o Econ("B") \o Econ("K"), {9})
          EXCEPT !.freeq = {9}, !.external = "last",
                 !.flows = << Flow(2, 8, "GIFT", FALSE, TRUE), Flow(8, 14, "GIFT", FALSE, TRUE), Flow(14, 2, "GIFT", TRUE, TRUE) >>,
                 !.exo = << Exo(1, "DEM_GOOD"), Exo(7, "DEM_GOOD"), Exo(13, "DEM_GOOD") >>]

\* the same, but one donor sends the same amount variable to two other currencies
RINGFAN == [RING3 EXCEPT !.name = "RINGFAN",
                         !.flows = << Flow(2, 8, "GIFT", FALSE, TRUE), Flow(2, 14, "GIFT", FALSE, TRUE), Flow(14, 2, "GIFT", TRUE, TRUE) >>]

\* ---- two goods markets whose codes are prefix-related (GOOD, GOODX), one firm and one government in both ---------
MULTIX == [Bp("MULTIX", C1,
           << [Sd("C", "GOV", "ConsolidatedGovernment") EXCEPT !.extra = << "DEM_GOODX" >>],
              Sd("C", "HH", "Household"),
              Sd("C", "GOOD", "Market"), Sd("C", "GOODX", "Market"),
              [Sd("C", "BUS", "FixedMarginBusinessMultiOutput") EXCEPT !.mkts = << 3, 4 >>],
              Sd("C", "TF", "TaxFlow"), Sd("C", "LAB", "Market") >>, {3, 4, 7})
        EXCEPT !.freeq = {3, 4}, !.exo = << Exo(1, "DEM_GOOD"), Exo(1, "DEM_GOODX") >>,
               !.suppliers = << [mkt |-> 3, sup |-> 5, rule |-> FALSE], [mkt |-> 4, sup |-> 5, rule |-> FALSE] >>]

\* ---- three regions of one currency; R1's goods market is supplied by the firms of all three regions, which share ----
\* ---- the sector code BUS (R1's firm is the residual supplier)                                                   ----
C3reg == << [code |-> "R1", cur |-> "X"], [code |-> "R2", cur |-> "X"], [code |-> "R3", cur |-> "X"] >>
TRIREG == [Bp("TRIREG", C3reg,
           << Sd("R1", "GOV", "ConsolidatedGovernment"), Sd("R1", "TF", "TaxFlow"),
              Sd("R1", "HH", "Household"), Sd("R1", "BUS", "FixedMarginBusiness"), Sd("R1", "LAB", "Market"), Sd("R1", "GOOD", "Market"),
              Sd("R2", "HH", "Household"), Sd("R2", "BUS", "FixedMarginBusinessMultiOutput"), Sd("R2", "LAB", "Market"),
              Sd("R3", "HH", "Household"), Sd("R3", "BUS", "FixedMarginBusinessMultiOutput"), Sd("R3", "LAB", "Market") >>, {4, 8})
        EXCEPT !.freeq = {8}, !.exo = << Exo(1, "DEM_GOOD") >>,
               !.sectors[8].late = << 6 >>, !.sectors[11].late = << 6 >>,
               !.suppliers = << [mkt |-> 6, sup |-> 8, rule |-> TRUE], [mkt |-> 6, sup |-> 11, rule |-> TRUE],
                                [mkt |-> 6, sup |-> 4, rule |-> FALSE] >>]

\* ---- as TWOBUS, the second business being an instance of a user-defined subclass of FixedMarginBusiness -----------
TWOBUSX == [TWOBUS EXCEPT !.name = "TWOBUSX", !.sectors[5].kind = "FixedMarginBusinessSub"]

\* local variables spelled like numeric words (an inflation rate INF, a rate nan) and variables defined as exactly them
SIMINF == [SIM EXCEPT !.name = "SIMINF", !.freeq = {2, 5}, !.sectors[2].params = << "INF", "EXP_INF", "nan", "EXP_nan", "Infinity", "EXP_Infinity" >>]

\* sector codes that differ in letter case only (a business coded Good next to the market GOOD), and a second business
\* that takes a share of that market by rule
CASECODES == [Bp("CASECODES", C1,
           << Sd("C", "GOV", "ConsolidatedGovernment"), Sd("C", "HH", "Household"),
              Sd("C", "Good", "FixedMarginBusiness"), Sd("C", "TF", "TaxFlow"),
              Sd("C", "LAB", "Market"), Sd("C", "GOOD", "Market"), Sd("C", "BUS2", "FixedMarginBusiness") >>, {3, 6, 7})
        EXCEPT !.freeq = {3, 6}, !.exo = << Exo(1, "DEM_GOOD") >>,
               !.suppliers = << [mkt |-> 6, sup |-> 7, rule |-> TRUE], [mkt |-> 6, sup |-> 3, rule |-> FALSE] >>]

\* the business also buys its own good (intermediate consumption): one sector on both sides of a market
SELFBUY == [SIM EXCEPT !.name = "SELFBUY", !.freeq = {3, 6}, !.sectors[3].extra = << "DEM_GOOD" >>,
                       !.exo = << Exo(1, "DEM_GOOD"), Exo(3, "DEM_GOOD") >>]

\* a dividend-paying business that the user has made taxable (IsTaxable = True), next to capitalists
TAXBUS == [SIMCAP EXCEPT !.name = "TAXBUS", !.free = {3, 4, 5, 7}, !.freeq = {3, 5}, !.sectors[3].taxable = TRUE]

\* the household has a tax rate of its own (the documented per-sector TaxRate variable), the capitalists have none
TAXOWN == [SIMCAP EXCEPT !.name = "TAXOWN", !.free = {2, 3, 4, 5}, !.freeq = {2, 4}, !.sectors[2].params = << "TaxRate" >>]

\* ... and the TaxFlow's own rate is zero (the constructor default): only the household's own rate levies anything
TAXOWN0 == [TAXOWN EXCEPT !.name = "TAXOWN0", !.sectors[5].zerorate = TRUE]

\* aid from A's household to B's household whose amount is declared as a '0.0' placeholder and then given as an
\* exogenous path (a cross-currency flow of a variable that has no equation when the flows are generated)
AIDX == [TwoCountry("AIDX") EXCEPT !.freeq = {3, 8}, !.external = "first",
            !.sectors[2].extra = << "AID" >>,
            !.flows = << Flow(2, 8, "AID", FALSE, TRUE) >>,
            !.exo = << Exo(1, "DEM_GOOD"), Exo(7, "DEM_GOOD"), Exo(2, "AID") >>]

\* two sectors that could receive the dividends of the business: ill-formed (refused since fix 49dd591; before it the
\* first declared one was paid, so the result depended on the declaration order - MC_ModelBuild_asfound2.cfg)
TWOCAPS == [Bp("TWOCAPS", C1,
           << Sd("C", "GOV", "ConsolidatedGovernment"), Sd("C", "HH", "Household"),
              [Sd("C", "BUS", "FixedMarginBusiness") EXCEPT !.margin = TRUE], Sd("C", "CAPA", "Capitalists"),
              Sd("C", "CAPB", "Capitalists"),
              Sd("C", "TF", "TaxFlow"), Sd("C", "LAB", "Market"), Sd("C", "GOOD", "Market") >>, {3, 4, 5, 8})
        EXCEPT !.freeq = {4, 5}, !.exo = << Exo(1, "DEM_GOOD") >>, !.wellformed = FALSE]

AllBlueprints == {SIMDN, TAXOWN0, AIDX, TWOSUPRULE, NOSUPRULE, FUNDDEP, SIMXG, CASECODES, SIMTRE, IMPORT2, ROWAID, TAXOWN, GOLDCBIMP, SIMINF, SELFBUY, TAXBUS, TWOCAPS, RINGFAN, SIMPLAIN, SIMBOOK, SIMEX1BOOK, PCBOOK, REGBOOK, REG2BOOK, MULTIX, TRIREG, TWOBUSX, RING3, REG2, GOLDCB, TWOBUS, TWOGIFTS, SIMBOND, IMPORTRES, NOEXT3, SIMX, SIMR, SIMEXR, JOIN2, JOIN2X, GOLD2, GOLDNOEXT, SIM, SIMEX, SIMCAP, SIMMARGIN, SIMMON, SIMDEP, PC, MULTI, FED, GIFT, GIFT2, IMPORT, NOEXT1, NOEXT2, NOSUP, TWOSUP}
QuickBlueprints == { [b EXCEPT !.free = b.freeq] : b \in AllBlueprints }
=============================================================================
