SPECIFICATION Spec
CONSTANTS
  Vars <- MC_Vars
  Places <- MC_Places
  MaxRequests = 3
  AsFound_GlobalNotFixed = FALSE
INVARIANT C05_NoPlaceholder
INVARIANT C05_CanonicalAfterCodes
CONSTRAINT Emit
CHECK_DEADLOCK FALSE
