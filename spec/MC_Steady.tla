----------------------------- MODULE MC_Steady -----------------------------
(* Bounded instances of Steady and behaviour emission.                       *)
EXTENDS Steady, Json

Cl(p, l, d) == [prev |-> p, last |-> l, drift |-> d, stays |-> TRUE]
ClLeaves(p, l, d) == [prev |-> p, last |-> l, drift |-> d, stays |-> FALSE]

(* a representative sub-grid for the second series of the quick instance: one class per   *)
(* branch of the acceptance test and per sign                                            *)
MC_Few == { Cl("pL", "pL", "zero"),      Cl("nL", "nL", "small"),
            Cl("pL", "pL", "rel_small"), Cl("nL", "nL", "rel_small"),
            Cl("pL", "pL", "large"),     Cl("nL", "nL", "large"),
            Cl("z",  "z",  "zero"),      Cl("ne", "pe", "large"),     ClLeaves("ne", "pe", "large"),
            Cl("pL", "z",  "large"),     Cl("nL", "pL", "large") }

(* third series of the replayed 3-variable instance *)
MC_Few3 == { Cl("nL", "nL", "large"), Cl("pL", "pL", "small"), Cl("nL", "nL", "rel_small"), ClLeaves("pe", "ne", "large") }

MC_GridThree    == << AllClasses, MC_Few, MC_Few3 >>
MC_GridQuick    == << AllClasses, MC_Few >>
MC_GridFull2    == << AllClasses, AllClasses >>
MC_GridFull3    == << AllClasses, AllClasses, AllClasses >>
MC_N12 == {1, 2}
MC_N2  == {2}
MC_N3  == {3}

(* every maximal behaviour is printed once, as JSON, for the replay driver *)
Emit == Terminal =>
          PrintT(<< "BEH", ToJson([n |-> n, excluded |-> excluded, wf |-> wf, runres |-> runres,
                                   cls |-> cls, phase |-> phase, exc |-> exc]) >>)
=============================================================================
