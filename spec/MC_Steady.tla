----------------------------- MODULE MC_Steady -----------------------------
(* Bounded instances of Steady and behaviour emission.                       *)
EXTENDS Steady, Json

Cl(p, l, d) == [prev |-> p, last |-> l, drift |-> d, stays |-> TRUE, loose |-> FALSE]
ClLeaves(p, l, d) == [prev |-> p, last |-> l, drift |-> d, stays |-> FALSE, loose |-> FALSE]

(* a representative sub-grid for the second series of the quick instance: one class per   *)
(* branch of the acceptance test and per sign                                            *)
MC_Few == { Cl("pL", "pL", "zero"),      Cl("nL", "nL", "small"),
            Cl("pL", "pL", "rel_small"), Cl("nL", "nL", "rel_small"),
            Cl("pL", "pL", "large"),     Cl("nL", "nL", "large"),
            Cl("z",  "z",  "zero"),      Cl("ne", "pe", "large"),     ClLeaves("ne", "pe", "large"),
            Cl("pL", "z",  "large"),     Cl("nL", "pL", "large") }

(* third series of the replayed 3-variable instance *)
MC_Few3 == { Cl("nL", "nL", "large"), Cl("pL", "pL", "small"), Cl("nL", "nL", "rel_small"), ClLeaves("pe", "ne", "large") }

(* names: plain ones, and a family in which one name occurs inside another *)
X1 == << "x", "1" >>
X2 == << "x", "2" >>
X3 == << "x", "3" >>
Y  == << "y" >>
YT == << "y", "_", "t", "o", "t", "a", "l" >>      \* y_total: contains y; LAG_y_total contains LAG_y
MY == << "m", "y" >>                               \* my: ends in y
GAP == << "g", "a", "p" >>
NoT(nms) == [i \in 1..Len(nms) |-> "none"]
Sch(id, nms, grid, excls) == [id |-> id, names |-> nms, kinds |-> [i \in 1..Len(nms) |-> "solved"], tdep |-> NoT(nms), steptol |-> "none", horizon |-> "many",
                              grid |-> grid, excls |-> excls]
(* schemes with series whose equations mention the time axis *)
SchT(id, nms, tds, grid, excls) == [id |-> id, names |-> nms, kinds |-> [i \in 1..Len(nms) |-> "solved"], tdep |-> tds, steptol |-> "none", horizon |-> "many",
                                    grid |-> grid, excls |-> excls]
(* schemes in which the user has set the solver's own tolerance *)
SchS(id, nms, st, grid, excls) == [id |-> id, names |-> nms, kinds |-> [i \in 1..Len(nms) |-> "solved"], tdep |-> NoT(nms),
                                   steptol |-> st, horizon |-> "many", grid |-> grid, excls |-> excls]
(* schemes with a very short search horizon *)
SchH(id, nms, hz, grid, excls) == [id |-> id, names |-> nms, kinds |-> [i \in 1..Len(nms) |-> "solved"], tdep |-> NoT(nms),
                                   steptol |-> "none", horizon |-> hz, grid |-> grid, excls |-> excls]
MC_Trend == { Cl("pL", "pL", "large"), Cl("nL", "nL", "large") }
(* schemes with a decorative series: an affine function of the solved series before it (gap = x1 - target) *)
SchK(id, nms, kds, grid, excls) == [id |-> id, names |-> nms, kinds |-> kds, tdep |-> NoT(nms), steptol |-> "none", horizon |-> "many", grid |-> grid, excls |-> excls]
(* classes a solved series can end in and still pass the test, at a large level and at a small one, and one that fails *)
MC_Pass == { Cl("pL", "pL", "rel_small"), Cl("nL", "nL", "rel_small"), Cl("pL", "pL", "small"),
             Cl("nL", "nL", "small"), Cl("pL", "pL", "zero"), Cl("pL", "pL", "large") }
AtMostOne(nms) == {{}} \cup { {nms[i]} : i \in 1..Len(nms) }

MC_SchemesQuick == {
    Sch(1, << X1 >>,     << AllClasses >>,         AtMostOne(<< X1 >>)),
    Sch(2, << X1, X2 >>, << AllClasses, MC_Few >>, AtMostOne(<< X1, X2 >>)),
    \* excluded names that contain / are contained in the name of a judged series
    Sch(3, << Y, YT >>,  << MC_Few, MC_Few >>,     { {YT}, {Y} }),
    Sch(4, << YT, Y >>,  << MC_Few3, MC_Few >>,    { {YT} }),
    Sch(5, << Y >>,      << AllClasses >>,         { {YT}, {MY} }),         \* the excluded name is no series at all
    SchK(6, << X1, GAP >>, << "solved", "decorative" >>, << MC_Pass, MC_Few >>, { {}, {GAP} }),
    SchT(7, << X1 >>,     << "settled" >>,         << AllClasses >>,       { {} }),
    SchT(8, << X1, X2 >>, << "none", "settled" >>, << MC_Pass, MC_Few >>,  { {} }),
    SchT(9, << X1, X2 >>, << "none", "trend" >>,   << MC_Pass, MC_Trend >>, { {}, {X2} }),
    SchS(10, << X1 >>,     "coarser", << LooseOf(AllClasses) >>,                { {} }),
    SchS(11, << X1, X2 >>, "coarser", << LooseOf(MC_Pass), LooseOf(MC_Few) >>, { {}, {X2} }),
    SchS(12, << X1 >>,     "finer",   << AllClasses >>,                         { {} }),
    SchH(13, << X1 >>,     "one", << AllClasses >>,      AtMostOne(<< X1 >>)),
    SchH(14, << X1, X2 >>, "one", << MC_Pass, MC_Few >>, { {}, {X2} }),
    SchH(15, << X1 >>,     "two", << AllClasses >>,      { {} }) }

MC_SchemesThorough == {
    Sch(1, << X1, X2 >>, << AllClasses, AllClasses >>, AtMostOne(<< X1, X2 >>)),
    Sch(2, << Y, YT >>,  << AllClasses, MC_Few >>,     { {YT}, {Y}, {Y, YT} }),
    Sch(3, << YT, Y >>,  << MC_Few, AllClasses >>,     { {YT}, {MY} }),
    SchK(4, << X1, GAP >>, << "solved", "decorative" >>, << MC_Pass, AllClasses >>, { {}, {GAP} }),
    SchT(5, << X1, X2 >>, << "settled", "settled" >>, << AllClasses, MC_Few >>,  { {}, {X2} }),
    SchT(6, << X1, X2 >>, << "trend", "none" >>,      << MC_Trend, AllClasses >>, { {}, {X1} }),
    SchS(7, << X1, X2 >>, "coarser", << LooseOf(AllClasses), LooseOf(MC_Few) >>, { {}, {X2} }),
    SchS(8, << X1, X2 >>, "finer",   << AllClasses, MC_Few >>,                   { {} }),
    SchH(9,  << X1, X2 >>, "one", << AllClasses, MC_Few >>, AtMostOne(<< X1, X2 >>)),
    SchH(10, << X1, X2 >>, "two", << AllClasses, MC_Few >>, { {}, {X1} }) }
(* (never excluded: a variable that a non-excluded one is computed from - see c15.py, assumptions) *)

MC_SchemesThree == {
    Sch(1, << X1, X2, X3 >>, << AllClasses, MC_Few, MC_Few3 >>, AtMostOne(<< X1, X2, X3 >>)),
    Sch(2, << Y, X1, YT >>,  << MC_Few, MC_Few3, MC_Few3 >>,    { {YT}, {Y}, {X1, YT} }),
    SchK(3, << X1, GAP, X2 >>, << "solved", "decorative", "solved" >>, << MC_Pass, MC_Few, MC_Few3 >>, { {}, {X2} }),
    SchT(4, << X1, X2, X3 >>, << "settled", "none", "trend" >>, << MC_Few, MC_Few3, MC_Trend >>, { {}, {X3} }),
    SchS(5, << X1, X2, X3 >>, "coarser", << LooseOf(MC_Few), MC_Few3, LooseOf(MC_Few3) >>, { {} }),
    SchH(6, << X1, X2, X3 >>, "one", << MC_Few, MC_Few3, MC_Few3 >>, { {}, {X3} }) }

MC_SchemesFull3 == {
    Sch(1, << X1, X2, X3 >>, << AllClasses, AllClasses, AllClasses >>, AtMostOne(<< X1, X2, X3 >>)),
    Sch(2, << Y, X1, YT >>,  << AllClasses, AllClasses, MC_Few >>,     { {YT} }),
    SchK(3, << X1, GAP, X2 >>, << "solved", "decorative", "solved" >>, << AllClasses, AllClasses, MC_Few >>, { {}, {GAP} }),
    SchT(4, << X1, X2, X3 >>, << "settled", "none", "trend" >>, << AllClasses, AllClasses, MC_Trend >>, { {}, {X3} }) }

(* every maximal behaviour is printed once, as JSON, for the replay driver *)
Emit == Terminal =>
          PrintT(<< "BEH", ToJson([n |-> n, names |-> names, kinds |-> kinds, tdep |-> tdep, steptol |-> steptol, horizon |-> horizon, option |-> option, excluded |-> excluded,
                                   sid |-> sid, wf |-> wf, runres |-> runres,
                                   cls |-> cls, phase |-> phase, exc |-> exc]) >>)
=============================================================================
