----------------------------- MODULE MC_Steady -----------------------------
(* Bounded instances of Steady and behaviour emission.                       *)
EXTENDS Steady, Json

Cl(p, l, d) == [prev |-> p, last |-> l, drift |-> d, stays |-> TRUE]
ClLeaves(p, l, d) == [prev |-> p, last |-> l, drift |-> d, stays |-> FALSE]

(* a representative sub-grid for the second series of the quick instance: one class per   *)
(* branch of the acceptance test and per sign                                            *)
MC_Few == { Cl("pL", "pL", "zero"),      Cl("nL", "nL", "small"),
            Cl("pL", "pL", "rel_small"), Cl("nL", "nL", "rel_small"),
            Cl("pL", "pL", "large"),     Cl("nL", "nL", "large"),
            Cl("z",  "z",  "zero"),      Cl("ne", "pe", "large"),     ClLeaves("ne", "pe", "large"),
            Cl("pL", "z",  "large"),     Cl("nL", "pL", "large") }

(* third series of the replayed 3-variable instance *)
MC_Few3 == { Cl("nL", "nL", "large"), Cl("pL", "pL", "small"), Cl("nL", "nL", "rel_small"), ClLeaves("pe", "ne", "large") }

(* names: plain ones, and a family in which one name occurs inside another *)
X1 == << "x", "1" >>
X2 == << "x", "2" >>
X3 == << "x", "3" >>
Y  == << "y" >>
YT == << "y", "_", "t", "o", "t", "a", "l" >>      \* y_total: contains y; LAG_y_total contains LAG_y
MY == << "m", "y" >>                               \* my: ends in y
Sch(id, nms, grid, excls) == [id |-> id, names |-> nms, grid |-> grid, excls |-> excls]
AtMostOne(nms) == {{}} \cup { {nms[i]} : i \in 1..Len(nms) }

MC_SchemesQuick == {
    Sch(1, << X1 >>,     << AllClasses >>,         AtMostOne(<< X1 >>)),
    Sch(2, << X1, X2 >>, << AllClasses, MC_Few >>, AtMostOne(<< X1, X2 >>)),
    \* excluded names that contain / are contained in the name of a judged series
    Sch(3, << Y, YT >>,  << MC_Few, MC_Few >>,     { {YT}, {Y} }),
    Sch(4, << YT, Y >>,  << MC_Few3, MC_Few >>,    { {YT} }),
    Sch(5, << Y >>,      << AllClasses >>,         { {YT}, {MY} }) }        \* the excluded name is no series at all

MC_SchemesThorough == {
    Sch(1, << X1, X2 >>, << AllClasses, AllClasses >>, AtMostOne(<< X1, X2 >>)),
    Sch(2, << Y, YT >>,  << AllClasses, MC_Few >>,     { {YT}, {Y}, {Y, YT} }),
    Sch(3, << YT, Y >>,  << MC_Few, AllClasses >>,     { {YT}, {MY} }) }

MC_SchemesThree == {
    Sch(1, << X1, X2, X3 >>, << AllClasses, MC_Few, MC_Few3 >>, AtMostOne(<< X1, X2, X3 >>)),
    Sch(2, << Y, X1, YT >>,  << MC_Few, MC_Few3, MC_Few3 >>,    { {YT}, {Y}, {X1, YT} }) }

MC_SchemesFull3 == {
    Sch(1, << X1, X2, X3 >>, << AllClasses, AllClasses, AllClasses >>, AtMostOne(<< X1, X2, X3 >>)),
    Sch(2, << Y, X1, YT >>,  << AllClasses, AllClasses, MC_Few >>,     { {YT} }) }

(* every maximal behaviour is printed once, as JSON, for the replay driver *)
Emit == Terminal =>
          PrintT(<< "BEH", ToJson([n |-> n, names |-> names, option |-> option, excluded |-> excluded,
                                   sid |-> sid, wf |-> wf, runres |-> runres,
                                   cls |-> cls, phase |-> phase, exc |-> exc]) >>)
=============================================================================
