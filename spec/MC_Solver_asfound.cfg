SPECIFICATION Spec
CONSTANTS
  Cap = 2
  Horizon = 2
  AsFound_NaNExitsLoop = TRUE
  AsFound_DecorativeAfterAppend = TRUE
  AsFound_NoSweepAtBigTolerance = FALSE
  MaxRetries = 0
  CapBoost = 3
  SweepAlphabet <- MC_AllSweeps
  DecoAlphabet <- MC_AllDeco
  BigChoices <- MC_BothBig
  ZeroChoices <- MC_NoZero
  ZeroToleranceFallsBack = FALSE
  LaggedRecordedAtSetup = FALSE
  Hyp_NoCap = FALSE
INVARIANT TypeOK
INVARIANT C02_SolvedOnlyIfConverged
INVARIANT C02_SolvedOnlyAfterSweep
INVARIANT C02_PeriodAllOrNothing
INVARIANT C11_BoundedSweeps
INVARIANT C11_NothingSolvedAtCap
INVARIANT C11_EqualLengthsAfterFailure
INVARIANT LengthsOfSolved
PROPERTY C11_FailureRaises
PROPERTY C11_PrefixIntact

CHECK_DEADLOCK FALSE
