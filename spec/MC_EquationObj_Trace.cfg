SPECIFICATION TraceSpec
CONSTANTS
  Leads = {}
  Bodies = {}
  SignForms = {}
  JoinElems = {}
  MaxTerms = 0
  MaxJoin = 0
  AsFound_BlobMerge = FALSE
  MaxOps = 1000
  ObjForms = {}
POSTCONDITION AllConsumed
CHECK_DEADLOCK FALSE
