----------------------------- MODULE SolverForms -----------------------------
(* C02, the shape of the submitted system: a variable A defined as a (possibly signed *)
(* or bracketed) copy of another variable S, and used by a further simultaneous       *)
(* equation in a position where operator precedence matters.                          *)
(*                                                                                    *)
(*   S     the source: simultaneous (y = 0.5*y + c), exogenous path, or a lagged       *)
(*         variable (LAG_w = w(k-1))                                                   *)
(*   A     A = <form>(S)     forms: S, +S, (S), -S, - S, (-S), -1*S, 0 - S             *)
(*   U     U = 0.25*U + <position>(A)   positions: operand of + and -, after unary     *)
(*         minus, factor, dividend, divisor, base of ** (even / odd), negated power,   *)
(*         exponent, function argument, inside brackets, ...                           *)
(*   options: initial condition on A, equation reduction on / off, U reaching A        *)
(*         through a second plain alias B = A                                          *)
(*                                                                                    *)
(* EquationParser.FindExactMatches replaces A by S in all equations when the cleaned   *)
(* right-hand side of A is exactly the name S (forms S and +S), reduction is on and A  *)
(* has no initial condition.  Replacement is textual; for a bare name it preserves the *)
(* value of every expression.  The constant SpliceNegated models the tempting          *)
(* extension "A = -S  =>  replace A by the text -S": textual splicing of a signed name *)
(* ignores precedence (-S**2 is -(S**2)), and TLC finds the counterexample.            *)
(*                                                                                    *)
(* Values are integers (S in {2, -4}: all quotients below are exact); 2**A is denoted  *)
(* by an injective code of its exponent.                                               *)
EXTENDS Integers, Sequences, TLC, FiniteSets

CONSTANTS Forms, Positions, Sources, AllowIC, AllowVia,   \* the instance
          SpliceNegated                                    \* FALSE = what the code does

AllForms == {"plain", "plus", "par", "neg", "neg_sp", "neg_par", "neg_mul", "zero_minus"}
AllPositions == {"sum", "sub", "uminus", "factor", "factor_r", "dividend", "divisor", "div_chain",
                 "pow2", "pow3", "neg_pow2", "sub_pow2", "par_pow2", "powfn", "self_mul", "sub_mul",
                 "pow_exp", "abs", "max1", "paren_mul"}
AllSources == {"sim", "exo", "lag"}
SVals == {2, -4}

Negated(f) == f \in {"neg", "neg_sp", "neg_par", "neg_mul", "zero_minus"}
AliasVal(f, s) == IF Negated(f) THEN 0 - s ELSE s

Abs(v) == IF v < 0 THEN 0 - v ELSE v

(* value of <position>(v) *)
Use(p, v) ==
    CASE p = "sum"       -> v + 5
      [] p = "sub"       -> 5 - v
      [] p = "uminus"    -> (0 - v) + 5
      [] p = "factor"    -> 2 * v
      [] p = "factor_r"  -> v * 2
      [] p = "dividend"  -> v \div 2
      [] p = "divisor"   -> 8 \div v
      [] p = "div_chain" -> (8 \div v) \div 2
      [] p = "pow2"      -> v * v
      [] p = "pow3"      -> v * v * v
      [] p = "neg_pow2"  -> 0 - (v * v)
      [] p = "sub_pow2"  -> 5 - (v * v)
      [] p = "par_pow2"  -> v * v
      [] p = "powfn"     -> v * v
      [] p = "self_mul"  -> v * v
      [] p = "sub_mul"   -> 5 - v * 2
      [] p = "pow_exp"   -> 1000 + v
      [] p = "abs"       -> Abs(v)
      [] p = "max1"      -> IF v > 1 THEN v ELSE 1
      [] p = "paren_mul" -> v * 2

(* value of <position> after the TEXT "-S" has been put in the place of A:            *)
(* the unary minus binds less tightly than ** and more tightly than everything else   *)
SpliceNeg(p, s) ==
    CASE p = "pow2"     -> 0 - (s * s)              \*  -S**2
      [] p = "pow3"     -> 0 - (s * s * s)          \*  -S**3   (same value as (-S)**3)
      [] p = "neg_pow2" -> s * s                    \*  --S**2
      [] p = "sub_pow2" -> 5 + (s * s)              \*  5 - -S**2
      [] OTHER          -> Use(p, 0 - s)

(* does FindExactMatches substitute A away? *)
BareName(f) == f \in {"plain", "plus"} \/ (SpliceNegated /\ f \in {"neg", "neg_sp"})
Substituted(sys) == sys.red /\ ~sys.ic /\ BareName(sys.form)

(* the value the iterated (reduced) system gives the position expression *)
IteratedUse(sys, s) ==
    IF Substituted(sys) /\ Negated(sys.form) THEN SpliceNeg(sys.pos, s)
    ELSE Use(sys.pos, AliasVal(sys.form, s))

NoSys == [form |-> "plain", pos |-> "sum", src |-> "sim", ic |-> FALSE, red |-> FALSE, via |-> FALSE]

VARIABLES phase,    \* "init" | "declared" | "reduced"
          sys,      \* the declared shape
          subst     \* did the reduction substitute A away

vars == << phase, sys, subst >>

Init == phase = "init" /\ sys = NoSys /\ subst = FALSE

Declare(f, p, src, ic, red, via) ==
    /\ phase = "init"
    /\ phase' = "declared"
    /\ sys' = [form |-> f, pos |-> p, src |-> src, ic |-> ic, red |-> red, via |-> via]
    /\ UNCHANGED subst

Reduce == /\ phase = "declared"
          /\ phase' = "reduced"
          /\ subst' = Substituted(sys)
          /\ UNCHANGED sys

Next == \/ \E f \in Forms, p \in Positions, src \in Sources, ic \in (IF AllowIC THEN BOOLEAN ELSE {FALSE}),
              red \in BOOLEAN, via \in (IF AllowVia THEN BOOLEAN ELSE {FALSE}) : Declare(f, p, src, ic, red, via)
        \/ Reduce

Spec == Init /\ [][Next]_vars

TypeOK == /\ phase \in {"init", "declared", "reduced"}
          /\ sys.form \in AllForms /\ sys.pos \in AllPositions /\ sys.src \in AllSources
          /\ Forms \subseteq AllForms /\ Positions \subseteq AllPositions /\ Sources \subseteq AllSources

(* C02: the system the solver iterates gives every submitted equation the value the user wrote *)
C02_IteratedSystemEquivalent ==
    phase = "reduced" => \A s \in SVals : IteratedUse(sys, s) = Use(sys.pos, AliasVal(sys.form, s))
=============================================================================
