SPECIFICATION TraceSpec
CONSTANTS
  Schemes <- MC_NoSchemes
  AllowMalformed = TRUE
  AsFound_SignedRelativeTest = FALSE
  AsFound_NearZeroBandIgnoresDrift = FALSE
  AsFound_ExclusionBySubstring = FALSE
  AsFound_DecorativeUntested = FALSE
  AsFound_DecorativeExcluded = FALSE
  AsFound_TimeAxisFrozen = FALSE
  AsFound_AcceptanceUsesStepTolerance = FALSE
  AsFound_ShortHorizonNotCompared = FALSE
POSTCONDITION AllConsumed
CHECK_DEADLOCK FALSE
