SPECIFICATION TraceSpec
CONSTANTS
  Schemes <- MC_NoSchemes
  AllowMalformed = TRUE
  AsFound_SignedRelativeTest = FALSE
  AsFound_NearZeroBandIgnoresDrift = FALSE
  AsFound_ExclusionBySubstring = FALSE
POSTCONDITION AllConsumed
CHECK_DEADLOCK FALSE
