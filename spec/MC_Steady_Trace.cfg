SPECIFICATION TraceSpec
CONSTANTS
  NVarsSet <- MC_One
  Grid <- MC_NoGrid
  MaxExcluded = 0
  AllowMalformed = TRUE
  AsFound_SignedRelativeTest = FALSE
  AsFound_NearZeroBandIgnoresDrift = FALSE
POSTCONDITION AllConsumed
CHECK_DEADLOCK FALSE
