--------------------------- MODULE Equation_Trace ---------------------------
(* Trace validation for Equation: executions of the real Equation class and of       *)
(* create_equation_from_terms, recorded by harness/checks/c12.py, are folded through  *)
(* the actions of Equation.  One total verdict per trace id.                         *)
(*   property:<clause>  a sentence of C12 is false on the observed values            *)
(*   drift:<clause>     the code did something the spec action does not predict      *)
EXTENDS Equation, Json, IOUtils

Log == ndJsonDeserialize(IOEnv.TRACE_FILE)

VARIABLES l, verdict
tvars == << vars, l, verdict >>

Ok == [kind |-> "ok", clause |-> ""]
Rank(v) == CASE v.kind = "ok" -> 0 [] v.kind = "drift" -> 1 [] v.kind = "property" -> 2
Worse(a, b) == IF Rank(b) > Rank(a) THEN b ELSE a     \* keeps the first of equal rank

LeadOf(text) == CHOOSE x \in Leads : x.text = text

Expected(i) == lead'[i] + SumAdded(added', Vals[i])

JudgeEq(e) ==
    IF ~e.ok THEN [kind |-> "property", clause |-> "C12_RendersValid"]
    ELSE IF e.vals # << Expected(1), Expected(2) >>
         THEN [kind |-> "property", clause |-> "C12_ValuePreserved"]
    ELSE IF e.text # RenderText(terms')
         THEN [kind |-> "drift", clause |-> "render_text"]
    ELSE Ok

JudgeJoin(e) ==
    IF ~e.ok THEN [kind |-> "property", clause |-> "C12_JoinPreservesSum"]
    ELSE IF e.vals # jn'.value THEN [kind |-> "property", clause |-> "C12_JoinPreservesSum"]
    ELSE IF e.after # jn'.after THEN [kind |-> "property", clause |-> "C12_JoinLeavesArgument"]
    ELSE Ok

TraceInit == Init /\ l = 1 /\ verdict = Ok

TraceNext ==
    /\ l <= Len(Log)
    /\ l' = l + 1
    /\ LET e == Log[l] IN
       \/ /\ e.ev = "Start"
          /\ Start(e.kind, IF e.kind = "none" THEN CHOOSE x \in Leads : TRUE ELSE LeadOf(e.lead))
          /\ verdict' = Worse(verdict, JudgeEq(e))
       \/ /\ e.ev = "AddTerm"
          /\ AddTerm(e.form)
          /\ verdict' = Worse(verdict, JudgeEq(e))
       \/ /\ e.ev = "Join"
          /\ Join(e.list)
          /\ verdict' = Worse(verdict, JudgeJoin(e))
       \/ /\ e.ev = "End"
          /\ PrintT(<< "VERDICT", e.tid, verdict.kind \o ":" \o verdict.clause >>)
          /\ mode' = "init" /\ start' = NoStart /\ terms' = << >> /\ lead' = << 0, 0 >>
          /\ added' = << >> /\ jn' = NoJoin
          /\ verdict' = Ok

TraceSpec == TraceInit /\ [][TraceNext]_tvars

AllConsumed == TLCGet("stats").diameter - 1 = Len(Log)
=============================================================================
