SPECIFICATION Spec
CONSTANTS
  MaxLinks = 4
  Sources <- MC_AllSources
  LeafPlaces <- MC_BothPlaces
  StalePreload = FALSE
INVARIANT TypeOK
INVARIANT C02_DecorativeValuesCurrent
CONSTRAINT Emit
CHECK_DEADLOCK FALSE
