INIT InitQuick
NEXT Next
CONSTANTS
  Configs <- NoConfigs
INVARIANT TypeOK
INVARIANT C10_Lengths
INVARIANT C10_ExoVerbatim
INVARIANT C10_ICVerbatim
INVARIANT C10_LagShift
INVARIANT C10_TimeAxis
INVARIANT C10_Rejects
CONSTRAINT Emit
CHECK_DEADLOCK FALSE
