SPECIFICATION Spec
CONSTANTS
  Models <- MC_Models
  Solvers <- MC_Solvers1
  Blocks <- MC_Blocks
  Shape <- MC_Shape
  BlockInfo <- MC_BlockInfo
  LogNames <- MC_LogNames
  TraceSteps <- MC_Trace2
  FuncBodies <- MC_FuncBodies
  MaxHist = 5
  AsFound_VarListCached = FALSE
  AsFound_TraceBreaksFunctions = TRUE
  Hyp_IdResetPerModel = FALSE
  Hyp_SharedFunctions = FALSE
  Hyp_RhsCachedByName = FALSE
  Hyp_SteadyOneShot = FALSE
  Hyp_SettingsSurviveReparse = FALSE
  Hyp_TraceNeedsStepLog = FALSE
INVARIANT TypeOK
INVARIANT C17_HistoryIndependent
INVARIANT C17_ReparseClean
PROPERTY C17_ResolveIdempotent
CHECK_DEADLOCK FALSE
