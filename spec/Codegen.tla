------------------------------ MODULE Codegen ------------------------------
(* sfc_models/deprecated/iterative_machine_generator.py: IterativeMachineGenerator and the  *)
(* stand-alone module (class SFCModel(BaseSolver)) it writes; sfc_models/base_solver.py.      *)
(*                                                                                            *)
(* One action per public call / section of the code:                                         *)
(*   RejectBlock(b)     IterativeMachineGenerator(text) raises NameError: a variable of the   *)
(*                      block is named like an attribute / method / local of the generated    *)
(*                      class; nothing is generated                                           *)
(*   ParseBlock(b)      IterativeMachineGenerator(text) -> ParseString: the shared            *)
(*                      EquationParser fills Endogenous / Lagged / Exogenous /                *)
(*                      InitialConditions / MaxTime; without a user time axis it appends      *)
(*                      the equation  t = k                                                   *)
(*   GenerateEquations  AllVariables, NonLagged, EquationList                                 *)
(*   GenerateFile       the text sections of the template: declarations in __init__, the      *)
(*                      pack section of RunOneStep, orig_vector, the Iterator (unpacking of   *)
(*                      in_vec, one NEW_<v> = <equation> per variable), the unpack section,   *)
(*                      the VariableList handed to BaseSolver                                 *)
(*   Import             import of the written file + SFCModel()                               *)
(*   RunStep(r)         one RunOneStep of the generated module; r = abstract residual flag    *)
(*                      ("the values appended in this step satisfy the block's equations")    *)
(*   Regenerate         main(<another file>) called again on the SAME generator object: the   *)
(*                      lists it holds persist - in particular the Exogenous list to which    *)
(*                      GenerateEquations appended the step index k - and GenerateEquations / *)
(*                      GenerateFile / Import / RunStep follow again (at most MaxGenerations  *)
(*                      modules per generator).  Every invariant is stated on the module of   *)
(*                      the current generation, so it must hold for each module written.      *)
(*                                                                                            *)
(* Only NAMES are modelled (which names a section binds, which names an equation reads,       *)
(* which series a pack line indexes and where); numbers live in the replay driver.            *)
(* ParseOp / GenEqOp / GenFileOp / ImportOp / RunStepOp are the single source of truth: the   *)
(* actions below and the trace specification Codegen_Trace both use them.                     *)
(*                                                                                            *)
(* A block (element of Blocks) carries the name-level fields                                  *)
(*   endo    Seq([name, reads])  user-written endogenous lines in text order (reads: Seq)     *)
(*   lagged  Seq([name, of])     name = of(k-1)                                               *)
(*   exos    Seq([name, len, reads])  exogenous list, the length of the list the text gives    *)
(*                               and the math / builtin names its expression uses              *)
(*   ics     Seq(STRING)         variables with a  v(0) = ...  line                           *)
(*   maxTime Nat                                                                              *)
(*   foundT  BOOLEAN             some line defines t or t_minus_1                             *)
(*   reduce  BOOLEAN             constructor option run_equation_reduction                    *)
(* and whatever else the bounded instance wants to pass to the driver (coefficients).         *)
EXTENDS Integers, Sequences, FiniteSets, TLC

CONSTANTS
    Blocks,               \* set of blocks
    MathNames,            \* names of the math module that blocks use: the in-process solver resolves them
                          \* (from math import *), so the generated module has to resolve them too
    ResidChoices,         \* values RunStep may take for the residual flag ({TRUE} in the bounded instance)
    MaxGenerations,       \* how many modules one generator object may write (main() called that often)
    FirstBlocks,          \* blocks a generator object may have parsed and generated BEFORE the block under test
    SecondBlocks,         \* blocks that are (also) tried as the second block of such a generator
    AsFound_KUndefined,   \* TRUE: the pinned code - nothing in the generated module binds k
    AsFound_ChainedLagNoSeries,
                          \* TRUE: the pinned code - a lagged variable that another lagged variable refers to
                          \* (b in  a = b(k-1), b = c(k-1)) is read as self.b[STEP-1] but no series self.b exists
    AsFound_OwnNamesAccepted
                          \* TRUE: the pinned code - a block variable named like an attribute / method / local of
                          \* the generated class (STEP, main, orig_vector, ...) is accepted and captures that name

Range(s) == { s[i] : i \in DOMAIN s }
NamesOf(s) == [ i \in DOMAIN s |-> s[i].name ]
Min(a, b) == IF a < b THEN a ELSE b
Count(s, x) == Cardinality({ i \in DOMAIN s : s[i] = x })

(* names of the generated class that a block variable of the same name would capture: every   *)
(* series is stored as self.<variable> (attributes and methods of SFCModel / BaseSolver) and   *)
(* the unpack section indexes the local orig_vector after re-binding the variables            *)
ModuleOwnNames == {"STEP", "MaxTime", "MaxIterations", "Err_Tolerance", "PrintIterations", "VariableList",
                   "main", "RunOneStep", "Iterator", "CalcError", "WriteCSV", "CreateCsvString", "orig_vector",
                   "ITERATOR"}            \* ... and a placeholder of the template that is replaced late
(* loop state of the fixed-point iteration in RunOneStep: must not be a block variable's value *)
LoopNames == {"err", "cnt"}
(* builtins the parser lets equations use (utils.get_invalid_tokens: good_tokens) *)
BuiltinNames == {"float", "max", "min", "sum", "pow", "abs", "round"}
(* every name the in-process solver resolves for an accepted block besides the block's own variables *)
SolverNames == MathNames \cup BuiltinNames

----------------------------------------------------------------------------
(* EquationParser.ParseString as seen through IterativeMachineGenerator.ParseString *)
TimeEquation == [name |-> "t", reads |-> << "k" >>]

(* the endogenous list as the parser builds it from the text *)
Endo0(b) == IF b.foundT THEN b.endo ELSE Append(b.endo, TimeEquation)

(* Constructor option run_equation_reduction (b.reduce): EquationParser.EquationReduction() moves every   *)
(* DECORATIVE variable - one that no equation and no lag line reads (a leaf such as SAV = YD - C, an       *)
(* alias INC = YD nobody uses, the injected t = k when no equation reads t) - out of the endogenous list  *)
(* into Decoration; the generator then solves  Endogenous + Decoration : the same equations, each ONCE,   *)
(* the decorative ones last.  (An alias substitution cannot change which names an equation reads here:    *)
(* the aliases of the bounded instance are never read.)                                                   *)
IsRead(b, e0, v) == \/ \E i \in DOMAIN e0 : v \in Range(e0[i].reads)
                    \/ \E j \in DOMAIN b.lagged : b.lagged[j].of = v
ReducedEndo(b) ==
    LET e0 == Endo0(b)
    IN SelectSeq(e0, LAMBDA q : IsRead(b, e0, q.name)) \o SelectSeq(e0, LAMBDA q : ~IsRead(b, e0, q.name))

ParseOp(b) ==
    [ endo    |-> IF b.reduce THEN ReducedEndo(b) ELSE Endo0(b),
      lagged  |-> b.lagged,
      exos    |-> b.exos,
      ics     |-> b.ics,
      maxTime |-> b.maxTime,
      tol     |-> b.tolText ]          \* Err_Tolerance: the block's line, or the parser's default

(* GenerateEquations.  Required behaviour (AsFound_KUndefined = FALSE): when an equation reads *)
(* the step index k and no list defines it, k is supplied as an exogenous series 0..MaxTime    *)
(* (what EquationSolver.SetInitialConditions does in process).  The series is appended to the  *)
(* generator's OWN Exogenous list (GenEqOp(p).exos becomes p.exos), so the test "no list       *)
(* defines it" is what keeps a second generation from adding it again.                         *)
DefinedNames(p) == Range(NamesOf(p.endo)) \cup Range(NamesOf(p.lagged)) \cup Range(NamesOf(p.exos))
ReadsK(p) == \E i \in DOMAIN p.endo : "k" \in Range(p.endo[i].reads)

GenEqOp(p) ==
    LET addK  == ~AsFound_KUndefined /\ ReadsK(p) /\ "k" \notin DefinedNames(p)
        exos2 == IF addK THEN Append(p.exos, [name |-> "k", len |-> p.maxTime + 1, reads |-> << "float" >>])
                 ELSE p.exos
    IN [ exos      |-> exos2,
         all       |-> NamesOf(p.endo) \o NamesOf(p.lagged) \o NamesOf(exos2),
         nonLagged |-> NamesOf(p.endo) \o NamesOf(exos2),
         eqReads   |-> [ i \in DOMAIN p.endo |-> p.endo[i].reads ]
                       \o [ i \in DOMAIN p.lagged |-> << p.lagged[i].name >> ]
                       \o [ i \in DOMAIN exos2 |-> << exos2[i].name >> ] ]

(* lagged variables whose own history is needed because another lagged variable refers to them *)
Chained(p) == SelectSeq(NamesOf(p.lagged), LAMBDA nm : \E j \in DOMAIN p.lagged : p.lagged[j].of = nm)
LagPos(p, nm) == CHOOSE i \in DOMAIN p.lagged : p.lagged[i].name = nm

(* the generator refuses (NameError from ParseString, like the parser's reserved words) a block *)
(* with a variable that would capture a name of the generated class                             *)
BlockNames(b) == Range(NamesOf(b.endo)) \cup Range(NamesOf(b.lagged)) \cup Range(NamesOf(b.exos))
(* ... or the Iterator's local NEW_<v> of another variable v of the block *)
NewCollision(names) == \E v \in names : ("NEW_" \o v) \in names
Accepts(b) == AsFound_OwnNamesAccepted
              \/ (BlockNames(b) \cap ModuleOwnNames = {} /\ ~NewCollision(BlockNames(b)))

(* BaseSolver.CreateCsvString: 't' first when present, the rest in VariableList order *)
HeaderOf(vl) ==
    IF "t" \in Range(vl) THEN << "t" >> \o SelectSeq(vl, LAMBDA x : x # "t") ELSE vl

(* GenerateFile: the sections of the written module *)
GenFileOp(p, g) ==
    LET ch == IF AsFound_ChainedLagNoSeries THEN << >> ELSE Chained(p) IN
    [ globals  |-> SolverNames,              \* "from math import *" + builtins: all the solver resolves
      declReads |-> [ i \in DOMAIN p.endo |-> << >> ] \o [ i \in DOMAIN ch |-> << >> ]
                    \o [ i \in DOMAIN g.exos |-> g.exos[i].reads ],
      decl     |-> [ i \in DOMAIN p.endo |-> [name |-> p.endo[i].name, len |-> 1] ]
                   \o [ i \in DOMAIN ch |-> [name |-> ch[i], len |-> 1] ]
                   \o [ i \in DOMAIN g.exos |->
                          [name |-> g.exos[i].name, len |-> Min(g.exos[i].len, p.maxTime + 1)] ],
      pack     |-> [ i \in DOMAIN p.endo |->
                          [name |-> p.endo[i].name, series |-> p.endo[i].name, idx |-> "last"] ]
                   \o [ i \in DOMAIN p.lagged |->
                          [name |-> p.lagged[i].name, series |-> p.lagged[i].of, idx |-> "STEP-1"] ]
                   \o [ i \in DOMAIN g.exos |->
                          [name |-> g.exos[i].name, series |-> g.exos[i].name, idx |-> "STEP"] ],
      orig     |-> g.all,
      iterUnpack |-> g.all,
      iterBinds  |-> g.all,                 \* NEW_<v>, in this order, returned in this order
      iterReads  |-> g.eqReads,
      unpack   |-> [ i \in DOMAIN p.endo |-> [name |-> p.endo[i].name, pos |-> i - 1] ]
                   \o [ i \in DOMAIN ch |-> [name |-> ch[i], pos |-> Len(p.endo) + LagPos(p, ch[i]) - 1] ],
      loopAfterPack |-> TRUE,               \* err = 1. / cnt = 0 are assigned after the variables are packed
      tol      |-> p.tol,                  \* self.Err_Tolerance / self.MaxTime written into the module
      maxTime  |-> p.maxTime,
      exoVerbatim |-> TRUE,                \* every exogenous path is declared as  self.<name> = <the block's own
                                           \* expression>  (a list, a tuple, a product, a parenthesised sum ...)
      vectorIsTuple |-> TRUE,              \* orig_vector, the unpacking of in_vec and the return value of the
                                           \* Iterator are tuples also when the block has ONE variable
      varList  |-> g.nonLagged,
      header   |-> HeaderOf(g.nonLagged) ]

ClosedFile(f) ==
    \A i \in DOMAIN f.iterReads : Range(f.iterReads[i]) \subseteq (Range(f.iterUnpack) \cup f.globals)
(* ... and every name an exogenous list expression in __init__ uses is a global of the module *)
DeclClosed(f) == \A i \in DOMAIN f.declReads : Range(f.declReads[i]) \subseteq f.globals

(* the loop state the while loop of RunOneStep reads is its own: no pack line (local assignment *)
(* of a block variable) comes between its initialisation and the loop                          *)
LoopStateOwn(f) == f.loopAfterPack \/ Range(NamesOf(f.pack)) \cap LoopNames = {}
(* no block variable captures a name of the generated class *)
NoOwnNameCaptured(f) == /\ Range(NamesOf(f.pack)) \cap ModuleOwnNames = {}
                        /\ ~NewCollision(Range(NamesOf(f.pack)))

(* import + SFCModel(): every declared series exists with its declared length *)
NoModule == [status |-> "none", STEP |-> 0, lens |-> << >>, reads |-> << >>, resid |-> TRUE]

ImportOp(f) == [status |-> IF DeclClosed(f) THEN "ok" ELSE "NameError",
                STEP |-> 0, lens |-> f.decl, reads |-> << >>, resid |-> TRUE]

HasSeries(m, nm) == \E i \in DOMAIN m.lens : m.lens[i].name = nm
LenOf(m, nm) == IF HasSeries(m, nm) THEN (m.lens[CHOOSE i \in DOMAIN m.lens : m.lens[i].name = nm]).len ELSE 0

(* RunOneStep: STEP += 1; pack; iterate to convergence; unpack/append *)
RunStepOp(f, m, r) ==
    LET step   == m.STEP + 1
        PackOk(pr) == /\ HasSeries(m, pr.series)
                      /\ CASE pr.idx = "last"   -> LenOf(m, pr.series) >= 1
                           [] pr.idx = "STEP-1" -> LenOf(m, pr.series) >= step
                           [] pr.idx = "STEP"   -> LenOf(m, pr.series) >= step + 1
                           [] OTHER             -> FALSE
        At(pr) == CASE pr.idx = "last"   -> LenOf(m, pr.series) - 1
                    [] pr.idx = "STEP-1" -> step - 1
                    [] OTHER             -> step
        appended == { f.unpack[i].name : i \in DOMAIN f.unpack }
    IN IF ~f.vectorIsTuple
       THEN [m EXCEPT !.STEP = step, !.status = "TypeError"]        \* CalcError zips two floats
       ELSE IF ~NoOwnNameCaptured(f)
       THEN [m EXCEPT !.STEP = step, !.status = "NameCaptured"]
       ELSE IF \E i \in DOMAIN f.pack : ~PackOk(f.pack[i])
       THEN [m EXCEPT !.STEP = step, !.status = "PackError"]
       ELSE IF ~LoopStateOwn(f)
       THEN [m EXCEPT !.STEP = step, !.status = "LoopStateCaptured"]   \* iteration skipped / spurious 'No Convergence!'
       ELSE IF ~ClosedFile(f)
       THEN [m EXCEPT !.STEP = step, !.status = "NameError"]
       ELSE [m EXCEPT !.STEP = step,
                      !.lens = [ i \in DOMAIN m.lens |->
                                   IF m.lens[i].name \in appended
                                   THEN [name |-> m.lens[i].name, len |-> m.lens[i].len + 1]
                                   ELSE m.lens[i] ],
                      !.reads = [ i \in DOMAIN f.pack |->
                                   [series |-> f.pack[i].series, idx |-> f.pack[i].idx, at |-> At(f.pack[i])] ],
                      !.resid = r]

----------------------------------------------------------------------------
VARIABLES phase,    \* "init" | "rejected" | "parsed" | "equations" | "file" | "imported" | "running" | "done"
          ngen,     \* number of modules this generator object has written
          first,    \* the block this generator object parsed and generated before the current one (or NoBlock)
          blk,      \* the block given to the generator (history)
          parser,   \* the parser lists held by the generator
          gen,      \* AllVariables / NonLagged / EquationList (and the Exogenous list after GenerateEquations)
          file,     \* name sets of the sections of the written module
          mod       \* step state of the imported module

vars == << phase, ngen, first, blk, parser, gen, file, mod >>

NoBlock  == [endo |-> << >>, lagged |-> << >>, exos |-> << >>, ics |-> << >>, maxTime |-> 0, foundT |-> FALSE,
             reduce |-> FALSE, tolText |-> ""]
NoParser == [endo |-> << >>, lagged |-> << >>, exos |-> << >>, ics |-> << >>, maxTime |-> 0, tol |-> ""]
NoGen    == [exos |-> << >>, all |-> << >>, nonLagged |-> << >>, eqReads |-> << >>]
NoFile   == [tol |-> "", maxTime |-> 0, exoVerbatim |-> TRUE, vectorIsTuple |-> TRUE, globals |-> {}, declReads |-> << >>, decl |-> << >>, pack |-> << >>, orig |-> << >>, iterUnpack |-> << >>, iterBinds |-> << >>,
             iterReads |-> << >>, unpack |-> << >>, loopAfterPack |-> TRUE, varList |-> << >>, header |-> << >>]

Init == /\ phase = "init" /\ ngen = 0 /\ first = NoBlock /\ blk = NoBlock /\ parser = NoParser /\ gen = NoGen /\ file = NoFile
        /\ mod = NoModule

ParseAccept(b) ==
    /\ phase = "init"
    /\ phase' = "parsed"
    /\ blk' = b
    /\ parser' = ParseOp(b)
    /\ UNCHANGED << first, ngen, gen, file, mod >>

ParseBlock(b) == Accepts(b) /\ ParseAccept(b)

(* the constructor raises NameError: nothing is generated from this block *)
ParseReject(b) ==
    /\ phase = "init"
    /\ phase' = "rejected"
    /\ blk' = b
    /\ UNCHANGED << first, ngen, parser, gen, file, mod >>

RejectBlock(b) == ~Accepts(b) /\ ParseReject(b)

GenerateEquations ==
    /\ phase = "parsed"
    /\ phase' = "equations"
    /\ gen' = GenEqOp(parser)
    /\ parser' = [parser EXCEPT !.exos = gen'.exos]      \* self.Exogenous is the generator's own list
    /\ UNCHANGED << first, ngen, blk, file, mod >>

GenerateFile ==
    /\ phase = "equations"
    /\ phase' = "file"
    /\ file' = GenFileOp(parser, gen)
    /\ ngen' = ngen + 1
    /\ UNCHANGED << first, blk, parser, gen, mod >>

Import ==
    /\ phase = "file"
    /\ mod' = ImportOp(file)
    /\ phase' = IF parser.maxTime = 0 \/ mod'.status # "ok" THEN "done" ELSE "imported"
    /\ UNCHANGED << first, ngen, blk, parser, gen, file >>

RunStep(r) ==
    /\ phase \in {"imported", "running"}
    /\ mod' = RunStepOp(file, mod, r)
    /\ phase' = IF mod'.status # "ok" \/ mod'.STEP >= parser.maxTime THEN "done" ELSE "running"
    /\ UNCHANGED << first, ngen, blk, parser, gen, file >>

(* main() once more on the same object: the parser lists (with what GenerateEquations did to *)
(* them) stay, everything derived is recomputed, a fresh module is written and imported      *)
Regenerate ==
    /\ phase = "done"
    /\ ngen < MaxGenerations
    /\ phase' = "parsed"
    /\ gen' = NoGen /\ file' = NoFile /\ mod' = NoModule
    /\ UNCHANGED << first, ngen, blk, parser >>

(* ParseString(<another block>) on the SAME generator object after it generated a module for a first *)
(* block: every per-block attribute (lists, initial conditions, horizon, tolerance, the step index    *)
(* series) is the new block's; nothing of the first block survives                                   *)
Reparse(b) ==
    /\ phase = "file" /\ first = NoBlock
    /\ Accepts(b)
    /\ first' = blk
    /\ blk' = b
    /\ parser' = ParseOp(b)
    /\ phase' = "parsed"
    /\ ngen' = 0
    /\ gen' = NoGen /\ file' = NoFile /\ mod' = NoModule

Next == \/ (phase = "init" /\ \E b \in Blocks \cup FirstBlocks : (ParseBlock(b) \/ RejectBlock(b)))
        \/ (phase = "file" /\ first = NoBlock /\ blk \in FirstBlocks /\ \E b \in SecondBlocks : Reparse(b))
        \/ GenerateEquations
        \/ GenerateFile
        \/ Import
        \/ \E r \in ResidChoices : RunStep(r)
        \/ Regenerate

Spec == Init /\ [][Next]_vars

----------------------------------------------------------------------------
(* C20 *)
HasFile == phase \in {"file", "imported", "running", "done"}
Stepped == phase \in {"running", "done"} /\ mod.STEP >= 1

(* every name the generated Iterator reads is bound by the unpacking of in_vec or comes from math *)
C20_Closed == HasFile => (ClosedFile(file) /\ DeclClosed(file))

(* the Iterator evaluates every equation of the block as written: line i reads exactly the names  *)
(* equation i reads - in particular an equation without any name (a parameter written as a literal *)
(* or as arithmetic on literals) is evaluated like every other one, not carried (NEW_v = v)        *)
IteratorEvaluates(p, f) ==
    \A i \in DOMAIN p.endo : i \in DOMAIN f.iterReads /\ Range(f.iterReads[i]) = Range(p.endo[i].reads)
C20_IteratorEvaluatesEquations == HasFile => IteratorEvaluates(parser, file)

(* every per-block attribute of the written module comes from the CURRENT block, also when the *)
(* generator object parsed another block before                                                 *)
C20_AttributesFromCurrentBlock ==
    HasFile => /\ file.tol = blk.tolText /\ file.maxTime = blk.maxTime
               /\ parser.endo = ParseOp(blk).endo /\ parser.lagged = blk.lagged /\ parser.ics = blk.ics
               /\ \A i \in DOMAIN parser.exos : parser.exos[i].name = "k" \/ parser.exos[i] \in Range(blk.exos)
(* the module's exogenous series are the block's own path expressions, whatever their spelling *)
C20_ExogenousDeclaredVerbatim == HasFile => file.exoVerbatim
(* the iteration vector is a tuple whatever the number of variables *)
C20_VectorIsTuple == HasFile => file.vectorIsTuple

(* the generated module resolves every math / builtin name the in-process solver resolves *)
C20_ResolvesSolverNames == HasFile => SolverNames \subseteq file.globals

(* the loop state of the generated step is distinct from every block variable; no block variable *)
(* captures a name of the generated class                                                         *)
C20_LoopStateOwn == HasFile => LoopStateOwn(file)
C20_NoNameCapture == HasFile => NoOwnNameCaptured(file)

(* every variable of the block is solved exactly once: no name twice in the generator's endogenous *)
(* list, in the declarations, in the unpack section or in VariableList (reduction on or off)       *)
NoDuplicates(q) == \A i, j \in DOMAIN q : q[i] = q[j] => i = j
C20_EachVariableOnce ==
    /\ NoDuplicates(NamesOf(parser.endo))
    /\ HasFile => /\ NoDuplicates(NamesOf(file.decl)) /\ NoDuplicates(NamesOf(file.unpack))
                   /\ NoDuplicates(file.varList)
(* reduction only reorders: the same equations with or without the option *)
C20_ReductionKeepsEquations ==
    phase # "init" /\ phase # "rejected" =>
        { <<q.name, Range(q.reads)>> : q \in Range(parser.endo) } = { <<q.name, Range(q.reads)>> : q \in Range(Endo0(blk)) }

(* the table lists 't' first and every non-lagged variable of the block exactly once *)
NonLaggedOfBlock(p) == Range(NamesOf(p.endo)) \cup Range(NamesOf(p.exos))
HeaderOk(h, names) ==
    /\ ("t" \in names => (Len(h) >= 1 /\ h[1] = "t"))
    /\ \A nm \in names : Count(h, nm) = 1
    /\ \A i \in DOMAIN h : Count(h, h[i]) = 1        \* whatever else is listed (the step index) is listed once
C20_HeaderTimeFirst == HasFile => HeaderOk(file.header, NonLaggedOfBlock(parser))

(* after a step every endogenous series - and every series the module keeps for a lagged variable that *)
(* is lagged again - has exactly one more value; lags were read at STEP-1, exogenous at STEP            *)
KeptSeries(p, f) == Range(NamesOf(p.endo)) \cup Range(NamesOf(f.unpack))
AppendsAllOf(p, f, m) ==
    m.status = "ok" =>
        /\ \A nm \in KeptSeries(p, f) : LenOf(m, nm) = m.STEP + 1
        /\ \A i \in DOMAIN m.reads :
              /\ (m.reads[i].idx = "STEP-1" => m.reads[i].at = m.STEP - 1)
              /\ (m.reads[i].idx = "STEP"   => m.reads[i].at = m.STEP)
              /\ (m.reads[i].idx = "last"   => m.reads[i].at = m.STEP - 1)
C20_StepAppendsAll == Stepped => AppendsAllOf(parser, file, mod)

(* the values appended in a completed step satisfy the block's equations (residual flag) *)
SatisfiesOf(m) == m.status = "ok" => m.resid
C20_StepSatisfiesEquations == Stepped => SatisfiesOf(mod)

(* the module of a parser-accepted block imports and runs: no step ends in an exception *)
C20_RunsClean == mod.status \in {"none", "ok"}

TypeOK == /\ ngen \in 0..MaxGenerations
          /\ phase \in {"init", "rejected", "parsed", "equations", "file", "imported", "running", "done"}
          /\ mod.STEP <= parser.maxTime
          /\ mod.status \in {"none", "ok", "NameError", "PackError", "LoopStateCaptured", "NameCaptured"}
=============================================================================
