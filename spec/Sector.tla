------------------------------- MODULE Sector -------------------------------
(* sfc_models/sector.py (Sector.AddVariable, SetEquationRightHandSide, AddCashFlow),   *)
(* models.py (Model.AddCashFlowIncomeExclusion / IncomeExclusions) and the part of     *)
(* equation.py they use (Equation.AddTerm merging like terms, Term sign parsing).      *)
(*                                                                                    *)
(* One action per public call on one sector S (Code 'S', in country C1) of a model.     *)
(* Two more sectors of the same Model exist only to receive exclusions that must not    *)
(* concern S:  T, the "twin" - a sector with the SAME local Code 'S' in a second         *)
(* Country C2 - and O, a sector with another Code in C1.  An income exclusion is made    *)
(* for a sector OBJECT: local codes are unique only within a country, so an exclusion    *)
(* registered for T (same Code, other object) is not an exclusion "for that sector" S.   *)
(*   AddVariable(a)   S.AddVariable(a.body, '', a.eqn)                                 *)
(*   SetRHS(a)        S.SetEquationRightHandSide(a.body, a.eqn)   (variable exists)    *)
(*   Exclude(a)       model.AddCashFlowIncomeExclusion(<S | T | O by a.who>, a.body)    *)
(*   AddVarFromEqn(a) S.AddVariableFromEquation(Equation(a.body))  (no stored term)     *)
(*   AddTerm(a)       S.AddTermToEquation(a.body, <sign spelling of the name a.eqn>)    *)
(*                    (variable exists): a definition built term by term on top of what  *)
(*                    the variable was declared with; like terms accumulate and cancel   *)
(*   AddCashFlow(a)   S.AddCashFlow(TermText(a), eqn = a.eqn if a.he else None,        *)
(*                                  is_income = a.inc)                                 *)
(* An action is a record [op, s1, br, s2, body, he, eqn, inc, who] (IsAct).  A flow    *)
(* term is a body (flow name A, B, the products A*B, B*A, the quotients A/B, B/A, or a *)
(* name with a numeric factor in either position 2*A, A*2, A/2, 2/A: two-factor terms   *)
(* are like terms only when spelled identically, A/B is not B/A; the sign / bracket     *)
(* spelling applies to the whole two-factor term: -2*A registers minus two A;           *)
(* or a decorated name OTHER__A / _7__A = the variable A of another sector: a different *)
(* flow from the local A - an exclusion of 'A' for S does not concern it, and an         *)
(* exclusion of the decorated name does not concern the local A)                         *)
(* with a sign / bracket                                                                *)
(* spelling s1 ( s2 body ): +A, -A, (-A), -(A), -(-A) ...  A defining expression is    *)
(* only supplied (he) for single-name flows.                                          *)
(*                                                                                    *)
(* The pure operators AddVariableOp / SetRHSOp / ExcludeOp / AddCashFlowOp on the      *)
(* state record are the single source of truth: the actions below and the trace        *)
(* specification Sector_Trace both go through them.                                    *)
(*                                                                                    *)
(* Property C06 is stated as invariants over the (K-fold, hence integer) value Den(.)  *)
(* of the ledgers under the two valuations Vals, as a function of the history `log` only. *)
EXTENDS Integers, Sequences, TLC, FiniteSets

CONSTANTS
    Alphabet,       \* set of action records offered by Next
    MaxLen          \* bound on the length of a history

FlowNames == {"A", "B"}
Bodies    == {"A", "B", "A*B", "B*A", "A/B", "B/A", "2*A", "A*2", "A/2", "2/A", "OTHER__A", "_7__A"}
Decorated == {"OTHER__A", "_7__A"}      \* full names of ANOTHER sector's variable A (code form, alias form)
(* Texts of right-hand sides of a flow variable.  The library's placeholder spellings    *)
(* '' and '0.0' are "empty / identically zero": AddCashFlow(term, eqn) may replace them.   *)
(* Everything else is an existing definition and is never overwritten - whatever its      *)
(* text looks like: D3, D4, D5 BEGIN like a zero literal but are real definitions.         *)
(* The other spellings of zero, '0' and '0.', are identically zero in value but are not    *)
(* treated as placeholders by the library; the statement can be read either way, so        *)
(* nothing is demanded of AddCashFlow about them (ZeroSpelled; weaker reading) - what the  *)
(* code does with them (it keeps them) is a conformance matter.                            *)
D1 == "Z*2"
D2 == "W-1"
D3 == "0.5*Z"               \* coefficient below one written first
D4 == "0.25"                \* non-zero constant below one
D5 == "0.0+0.25*W"          \* begins with the placeholder spelling itself
Placeholders == {"", "0.0"}
ZeroSpelled  == {"0", "0."}
RealDefs     == {D1, D2, D3, D4, D5}
Eqns  == Placeholders \cup RealDefs \cup ZeroSpelled
TBodies == {"Z", "W"}           \* names that AddTermToEquation adds to a flow variable's definition
Signs == {"", "+", "-"}
Sectors == {"S", "T", "O"}      \* this sector; its twin (same Code, other Country); another Code

IsAct(a) ==
    /\ DOMAIN a = {"op", "s1", "br", "s2", "body", "he", "eqn", "inc", "who"}
    /\ a.op \in {"CF", "AV", "SR", "EX", "AT", "AQ"}
    /\ a.s1 \in Signs /\ a.s2 \in Signs /\ a.br \in BOOLEAN /\ (a.br \/ a.s2 = "")
    /\ a.body \in Bodies /\ a.eqn \in (IF a.op = "AT" THEN TBodies ELSE Eqns)
    /\ a.he \in BOOLEAN /\ a.inc \in BOOLEAN /\ a.who \in Sectors
    /\ a.op = "CF" => /\ a.he => a.body \in FlowNames      \* "the flow variable" of a product is not a variable
                      /\ ~a.he => a.eqn = ""
                      /\ a.who = "S"
    /\ a.op \in {"AV", "SR"} => a.body \in FlowNames /\ a.he /\ a.s1 = "" /\ ~a.br /\ a.inc /\ a.who = "S"
    /\ a.op = "EX" => ~a.he /\ a.eqn = "" /\ a.s1 = "" /\ ~a.br /\ a.inc
    /\ a.op = "AT" => a.body \in FlowNames /\ a.he /\ a.inc /\ a.who = "S"    \* a.eqn: the name added, s1/br/s2 its sign
    /\ a.op = "AQ" => a.body \in FlowNames /\ ~a.he /\ a.eqn = "" /\ a.s1 = "" /\ ~a.br /\ a.inc /\ a.who = "S"

ASSUME \A a \in Alphabet : IsAct(a)

SignOf(s) == IF s = "-" THEN -1 ELSE 1
Coef(a) == SignOf(a.s1) * SignOf(a.s2)
TermText(a) == LET x == IF a.op = "AT" THEN a.eqn ELSE a.body
               IN a.s1 \o (IF a.br THEN "(" \o a.s2 \o x \o ")" ELSE x)

----------------------------------------------------------------------------
(* valuations.  Quotient flows make ledger values rational, so every ledger value is    *)
(* taken times the fixed integer v.K (a common denominator of all flow-term values):       *)
(* Den.. below are K-fold values and exact integers (small: everything stays far below     *)
(* 2^31).  Separation (verified by exhaustive enumeration, harness/checks/c06.py           *)
(* check_separation): let d be the difference of the coefficient vectors of two ledgers    *)
(* over the twelve bodies and LAG_F, with sum |d_i| <= 8.   Then the two ledgers have the same *)
(* value under BOTH valuations only if they are the same flow value identically (A*B with  *)
(* B*A; A, 2*A, A*2, A/2 combined with weights 1, 2, 2, 1/2).  In particular A/B, B/A, 2/A, *)
(* A/2 are all told apart, and a lost or flipped sign on any term is seen.                  *)
Vals == << [A |-> 12,  B |-> -5, L |-> 1009,  P |-> 37,  Q |-> -23, K |-> 60, Z |-> 3,  W |-> 8],
           [A |-> -15, B |-> 4,  L |-> -1013, P |-> -41, Q |-> 29,  K |-> 60, Z |-> -4, W |-> -6] >>

ASSUME \A i \in 1..2 : LET v == Vals[i] IN          \* the quotients are exact
          /\ ((v.K * v.A) \div v.B) * v.B = v.K * v.A
          /\ ((v.K * v.B) \div v.A) * v.A = v.K * v.B
          /\ ((v.K * v.A) \div 2) * 2 = v.K * v.A
          /\ ((v.K * 2) \div v.A) * v.A = v.K * 2

DenBody(b, v) ==            \* K-fold value of a flow term
    CASE b = "A"   -> v.K * v.A
      [] b = "B"   -> v.K * v.B
      [] b = "A*B" -> v.K * v.A * v.B
      [] b = "B*A" -> v.K * v.B * v.A
      [] b = "A/B" -> (v.K * v.A) \div v.B
      [] b = "B/A" -> (v.K * v.B) \div v.A
      [] b = "2*A" -> v.K * 2 * v.A
      [] b = "A*2" -> v.K * v.A * 2
      [] b = "A/2" -> (v.K * v.A) \div 2
      [] b = "2/A" -> (v.K * 2) \div v.A
      [] b = "OTHER__A" -> v.K * v.P
      [] b = "_7__A"    -> v.K * v.Q
DenLag(v) == v.K * v.L

DenDef(d, v) ==             \* 4-fold value of a definition text (exact integers)
    CASE d = D1 -> 8 * v.Z
      [] d = D2 -> 4 * (v.W - 1)
      [] d = D3 -> 2 * v.Z
      [] d = D4 -> 1
      [] d = D5 -> v.W
      [] OTHER  -> 0

(* a ledger is a bag: term text -> accumulated coefficient *)
RECURSIVE SumBag(_, _, _)
SumBag(S, bag, v) ==
    IF S = {} THEN 0
    ELSE LET b == CHOOSE x \in S : TRUE
         IN bag[b] * DenBody(b, v) + SumBag(S \ {b}, bag, v)

DenINC(bag, v) == SumBag(Bodies, bag, v)
DenF(bag, v)   == DenLag(v) + SumBag(Bodies, bag, v)      \* F starts as the single term LAG_F

EmptyBag == [b \in Bodies |-> 0]

----------------------------------------------------------------------------
(* definition state of a flow variable: what it was declared / set with (the opaque      *)
(* head: k, d) and the bag t of terms added by AddTermToEquation.  The right-hand side    *)
(* renders as head text followed by the signed terms; a term whose coefficient is 0        *)
(* renders as nothing, and an empty rendering as '0.0'.                                    *)
ZeroT == [b \in TBodies |-> 0]
Absent == [k |-> "absent", d |-> "", t |-> ZeroT]
ClassOfEqn(q) ==
    IF q = "" THEN [k |-> "empty", d |-> "", t |-> ZeroT]
    ELSE IF q = "0.0" THEN [k |-> "zero", d |-> "", t |-> ZeroT]
    ELSE [k |-> "defined", d |-> q, t |-> ZeroT]
IsDef(c) == /\ DOMAIN c = {"k", "d", "t"}
            /\ c.k \in {"absent", "empty", "zero", "defined"} /\ c.d \in Eqns
            /\ DOMAIN c.t = TBodies /\ \A b \in TBodies : c.t[b] \in Int
            /\ c.k = "absent" => c.t = ZeroT
NoTerms(c) == \A b \in TBodies : c.t[b] = 0            \* none added, or all cancelled
(* class of the WHOLE rendered right-hand side, which is what AddCashFlow has to go by *)
Eff(c) == IF c.k = "absent" \/ NoTerms(c) THEN c.k ELSE "defined"
Blank(c) == Eff(c) \in {"absent", "empty", "zero"}     \* what AddCashFlow may define
DenTerms(c, v) == 4 * (c.t["Z"] * v.Z + c.t["W"] * v.W)
DenOfDef(c, v) == (IF c.k = "defined" THEN DenDef(c.d, v) ELSE 0) + DenTerms(c, v)   \* 4-fold value

----------------------------------------------------------------------------
(* the operations, on a state record s = [defs, F, INC, excl, exclO, log] *)
(* excl: names excluded for the object S; exclO: << sector, name >> excluded for T or O   *)

AddVariableOp(s, a) ==          \* an existing variable is overwritten
    [s EXCEPT !.defs = [s.defs EXCEPT ![a.body] = ClassOfEqn(a.eqn)],
              !.log  = Append(s.log, [a |-> a, ex |-> FALSE])]

SetRHSOp(s, a) ==
    [s EXCEPT !.defs = [s.defs EXCEPT ![a.body] = ClassOfEqn(a.eqn)],
              !.log  = Append(s.log, [a |-> a, ex |-> FALSE])]

AddVarFromEqnOp(s, a) ==        \* an Equation object without terms: renders '0.0', no opaque head is stored
    [s EXCEPT !.defs = [s.defs EXCEPT ![a.body] = ClassOfEqn("")],
              !.log  = Append(s.log, [a |-> a, ex |-> FALSE])]

AddTermOp(s, a) ==              \* Equation.AddTerm: like terms accumulate; the opaque head is never a like term
    [s EXCEPT !.defs = [s.defs EXCEPT ![a.body].t[a.eqn] = s.defs[a.body].t[a.eqn] + Coef(a)],
              !.log  = Append(s.log, [a |-> a, ex |-> FALSE])]

ExcludeOp(s, a) ==
    [s EXCEPT !.excl  = IF a.who = "S" THEN s.excl \cup {a.body} ELSE s.excl,
              !.exclO = IF a.who = "S" THEN s.exclO ELSE s.exclO \cup {<< a.who, a.body >>},
              !.log   = Append(s.log, [a |-> a, ex |-> FALSE])]

(* AddCashFlow: the term goes into F; into INC if is_income and the (sign-stripped) term *)
(* is not excluded for this sector object now; then, with a defining expression, the flow       *)
(* variable is created, or defined if its WHOLE right-hand side renders as '' / '0.0'    *)
(* (Blank: also a term-by-term definition that has cancelled; not a placeholder head      *)
(* that has got terms since).                                                            *)
AddCashFlowOp(s, a) ==
    LET c     == Coef(a)
        exNow == a.body \in s.excl
        toInc == a.inc /\ ~exNow
        nd    == IF a.he /\ Blank(s.defs[a.body])
                 THEN [s.defs EXCEPT ![a.body] = ClassOfEqn(a.eqn)]
                 ELSE s.defs
    IN [s EXCEPT !.F    = [s.F EXCEPT ![a.body] = s.F[a.body] + c],
                 !.INC  = IF toInc THEN [s.INC EXCEPT ![a.body] = s.INC[a.body] + c] ELSE s.INC,
                 !.defs = nd,
                 !.log  = Append(s.log, [a |-> a, ex |-> exNow])]

DoOp(s, a) ==
    CASE a.op = "AV" -> AddVariableOp(s, a)
      [] a.op = "SR" -> SetRHSOp(s, a)
      [] a.op = "EX" -> ExcludeOp(s, a)
      [] a.op = "CF" -> AddCashFlowOp(s, a)
      [] a.op = "AQ" -> AddVarFromEqnOp(s, a)
      [] a.op = "AT" -> AddTermOp(s, a)

----------------------------------------------------------------------------
VARIABLES defs,     \* flow name -> [k: absent / empty / zero / defined, d: head text, t: added terms]
          pdefs,    \* defs before the last action (history variable for C06_DefineOnce)
          F, INC,   \* ledgers: body -> coefficient (F additionally holds LAG_F)
          excl,     \* names excluded from income for this sector
          exclO,    \* << sector, name >>: exclusions made for the other sector objects T, O
          log       \* history: << [a |-> action, ex |-> excluded at registration time] >>

vars == << defs, pdefs, F, INC, excl, exclO, log >>

St == [defs |-> defs, F |-> F, INC |-> INC, excl |-> excl, exclO |-> exclO, log |-> log]

InitSt == [defs |-> [n \in FlowNames |-> Absent], F |-> EmptyBag, INC |-> EmptyBag,
           excl |-> {}, exclO |-> {}, log |-> << >>]

Install(n, before) ==
    /\ defs' = n.defs /\ F' = n.F /\ INC' = n.INC /\ excl' = n.excl /\ exclO' = n.exclO
    /\ log' = n.log /\ pdefs' = before

Init == /\ defs = InitSt.defs /\ pdefs = InitSt.defs /\ F = EmptyBag /\ INC = EmptyBag
        /\ excl = {} /\ exclO = {} /\ log = << >>

Room == Len(log) < MaxLen

AddVariable(a) == a.op = "AV" /\ Room /\ Install(AddVariableOp(St, a), defs)
SetRHS(a)      == a.op = "SR" /\ Room /\ defs[a.body].k # "absent"     \* else KeyError, nothing happens
                  /\ Install(SetRHSOp(St, a), defs)
Exclude(a)     == a.op = "EX" /\ Room /\ Install(ExcludeOp(St, a), defs)
AddCashFlow(a) == a.op = "CF" /\ Room /\ Install(AddCashFlowOp(St, a), defs)
AddVarFromEqn(a) == a.op = "AQ" /\ Room /\ Install(AddVarFromEqnOp(St, a), defs)
AddTerm(a)     == a.op = "AT" /\ Room /\ defs[a.body].k # "absent"     \* else KeyError, nothing happens
                  /\ Install(AddTermOp(St, a), defs)

Do(a) == AddVariable(a) \/ SetRHS(a) \/ Exclude(a) \/ AddCashFlow(a) \/ AddVarFromEqn(a) \/ AddTerm(a)

Next == \E a \in Alphabet : Do(a)

Spec == Init /\ [][Next]_vars

----------------------------------------------------------------------------
(* C06, as a function of the history only *)

(* excluded for this sector object by an Exclude that precedes position i *)
ExcludedBefore(lg, i) ==
    \E j \in 1..(i - 1) : lg[j].a.op = "EX" /\ lg[j].a.who = "S" /\ lg[j].a.body = lg[i].a.body

Registered(lg, i) == lg[i].a.op = "CF"
CountsAsIncome(lg, i) == Registered(lg, i) /\ lg[i].a.inc /\ ~ExcludedBefore(lg, i)

RECURSIVE SumFlows(_, _, _, _)
SumFlows(lg, i, v, incomeOnly) ==
    IF i = 0 THEN 0
    ELSE (IF (IF incomeOnly THEN CountsAsIncome(lg, i) ELSE Registered(lg, i))
          THEN Coef(lg[i].a) * DenBody(lg[i].a.body, v) ELSE 0)
         + SumFlows(lg, i - 1, v, incomeOnly)

ExpF(lg, i)   == DenLag(Vals[i]) + SumFlows(lg, Len(lg), Vals[i], FALSE)
ExpINC(lg, i) == SumFlows(lg, Len(lg), Vals[i], TRUE)

C06_F   == \A i \in 1..2 : DenF(F, Vals[i]) = ExpF(log, i)
C06_INC == \A i \in 1..2 : DenINC(INC, Vals[i]) = ExpINC(log, i)

(* Registering a flow never changes an existing definition; with a defining expression  *)
(* (a real one: '' and '0.0' define nothing, '0' / '0.' are left out) it defines a flow   *)
(* variable that was absent, empty or zero ('' / '0.0').  An existing '0' / '0.' is        *)
(* neither protected nor required to be replaced.  "Existing definition" and "zero"      *)
(* refer to the whole right-hand side: '' + Z + W is a definition, Z - Z is zero.         *)
DefinesSomething(act) == act.op = "CF" /\ act.he /\ act.eqn \in RealDefs
Doubtful(c)  == c.k = "defined" /\ c.d \in ZeroSpelled /\ NoTerms(c)     \* renders as '0' / '0.'
Protected(c) == Eff(c) = "defined" /\ ~Doubtful(c)               \* an existing definition beyond doubt
DefineOnceRel(before, after, act) ==
    act.op = "CF" =>
        /\ \A m \in FlowNames : Protected(before[m]) => after[m] = before[m]
        /\ (DefinesSomething(act) /\ Blank(before[act.body])) =>
               after[act.body] = ClassOfEqn(act.eqn)

C06_DefineOnce == log # << >> => DefineOnceRel(pdefs, defs, log[Len(log)].a)

(* consistency of the model's own bookkeeping *)
LogExConsistent == \A i \in 1..Len(log) :
                      log[i].ex = (Registered(log, i) /\ ExcludedBefore(log, i))
TypeOK == /\ DOMAIN defs = FlowNames /\ DOMAIN pdefs = FlowNames
          /\ \A n \in FlowNames : IsDef(defs[n]) /\ IsDef(pdefs[n])
          /\ DOMAIN F = Bodies /\ DOMAIN INC = Bodies
          /\ excl \subseteq Bodies /\ exclO \subseteq ((Sectors \ {"S"}) \X Bodies)
          /\ Len(log) <= MaxLen
          /\ \A i \in 1..Len(log) : IsAct(log[i].a)
=============================================================================
