SPECIFICATION Spec
CONSTANTS
  Leads <- MC_Leads
  Bodies <- MC_Bodies
  SignForms <- MC_SignsFew
  JoinElems <- MC_JoinElems
  MaxTerms = 3
  MaxJoin = 3
  AsFound_BlobMerge = FALSE
INVARIANT TypeOK
INVARIANT C12_ValuePreserved
INVARIANT C12_RendersValid
INVARIANT C12_JoinPreservesSum
INVARIANT C12_JoinLeavesArgument
CONSTRAINT Emit
CHECK_DEADLOCK FALSE
