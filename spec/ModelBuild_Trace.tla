-------------------------- MODULE ModelBuild_Trace --------------------------
(* Trace validation for ModelBuild: real models built by harness/modelcheck.py from   *)
(* TLC-generated (blueprint, declaration order) pairs.  The spec side is RunAll (tied  *)
(* to the action-level pipeline by the invariant PipelineIsRunAll of the exhaustive    *)
(* run); the observed side is the projection of Model.FinalEquations and the Booleans  *)
(* computed by the exact oracle.  The verdict lists every failing clause:              *)
(*    Cnn_<clause>   a sentence of property Cnn is false on the observed model          *)
(*    drift_<clause> the real model differs from what the spec action predicts          *)
EXTENDS ModelBuild, ModelBlueprints, Json, IOUtils

Log == ndJsonDeserialize(IOEnv.TRACE_FILE)

VARIABLES l, fails
tvars == << vars, l, fails >>

LookupBp(name) == CHOOSE b \in Blueprints : b.name = name
AllTrue(flags, from) == \A k \in from..Len(flags) : flags[k]

\* observed rows: sequence of [c |-> Int, int |-> BOOLEAN, f |-> <<names>>]
ObsMonos(row) == { Range(t.f) : t \in Range(row) }
ObsCoef(row, m) == (CHOOSE t \in Range(row) : Range(t.f) = m)
IsParam(v) == v[2] \in {"$W", "$M"}
SpecMonos(b, bag) == { { FullName(b, v) : v \in { x \in m : ~IsParam(x) } } : m \in DOMAIN bag }
HasParam(m) == \E v \in m : IsParam(v)
RowAgrees(b, bag, row) ==
    /\ ObsMonos(row) = SpecMonos(b, bag)
    /\ \A m \in DOMAIN bag :
         ~HasParam(m) =>
            LET t == ObsCoef(row, { FullName(b, v) : v \in m })
            IN t.int /\ t.c = bag[m]

LedgerDrift(b, s0, e) ==
    \E i \in 1..Len(e.ledgers) :
        LET r == e.ledgers[i]
        IN \/ ~RowAgrees(b, MAdd(MNorm(s0.F[r.s]), {<< r.s, "LAG_F" >>}, 1), r.F)
           \/ ~RowAgrees(b, MNorm(s0.INC[r.s]), r.INC)

\* (e.queried: cross rates the user asked the exchange-rate sector for while building the model - asking creates the
\* variable, whether or not a flow uses that direction of the pair)
VarsDrift(b, s0, e) ==
    \E i \in 1..Len(e.vars) :
        LET obs == Range(e.vars[i].names)
            exp == s0.vt[e.vars[i].s]
        IN ~(exp \subseteq obs /\ (obs \ exp) \subseteq Range(e.queried))

\* ledgers observed during main(): rows of [c, int, f |-> << <<sector, local>>, ... >>]; LAG_F is in the real F equation
\* from the constructor on, the spec adds it when the ledgers are closed
PairMono(t) == { << p[1], p[2] >> : p \in Range(t.f) }
PhaseRowAgrees(bag, row) ==
    /\ { PairMono(t) : t \in Range(row) } = DOMAIN bag
    /\ \A t \in Range(row) : t.int /\ t.c = bag[PairMono(t)]
PhaseLedgerDrift(s0, e) ==
    \E i \in 1..Len(e.ledgers) :
        LET r == e.ledgers[i]
        IN \/ ~PhaseRowAgrees(MAdd(MNorm(s0.F[r.s]), {<< r.s, "LAG_F" >>}, 1), r.F)
           \/ ~PhaseRowAgrees(MNorm(s0.INC[r.s]), r.INC)

K0(e) == IF e.hasic THEN 2 ELSE 1

\* the clauses that need no blueprint: they talk about the emitted system and the exact solution only
PropClauses(e) ==
    (IF \E i \in 1..Len(e.sfc) : ~AllTrue(e.sfc[i].flags, K0(e)) THEN {"C01_SFC"} ELSE {})
    \cup (IF ~e.ledger_rows_ok THEN {"C06_LedgerRow"} ELSE {})
    \cup (IF \E i \in 1..Len(e.markets) : ~AllTrue(e.markets[i].demand_aggregates, 1) THEN {"C04_DemandAggregatesAll"} ELSE {})
    \cup (IF \E i \in 1..Len(e.markets) : ~AllTrue(e.markets[i].clears, 1) THEN {"C04_SupplyEqualsDemand"} ELSE {})
    \cup (IF \E i \in 1..Len(e.markets) : ~AllTrue(e.markets[i].allocation_sums, 1) THEN {"C04_AllocationSums"} ELSE {})
    \cup (IF \E i \in 1..Len(e.markets) :
               \/ ~AllTrue(e.markets[i].supplier_matches, 1)
               \/ ~e.markets[i].demander_booked \/ ~e.markets[i].supplier_booked
          THEN {"C04_ParticipantMatches"} ELSE {})
    \cup (IF \E i \in 1..Len(e.assetmarkets) :
               \/ ~AllTrue(e.assetmarkets[i].demand_aggregates, 1)
               \/ ~AllTrue(e.assetmarkets[i].clears, 1)
               \/ ~AllTrue(e.assetmarkets[i].issuer_supplies, 1)
          THEN {"C04_AssetMarketAggregates"} ELSE {})
    \cup (IF \E i \in 1..Len(e.portfolios) : ~AllTrue(e.portfolios[i].adds_up, 1) THEN {"C04_PortfolioAddsUp"} ELSE {})
    \cup (IF ~e.no_placeholder THEN {"C05_NoPlaceholder"} ELSE {})
    \cup (IF ~e.defined_once THEN {"C05_DefinedOnce"} ELSE {})
    \cup (IF ~e.canonical THEN {"C05_Canonical"} ELSE {})
    \cup (IF ~e.closed THEN {"C05_Closed"} ELSE {})
    \cup (IF ~e.meaning THEN {"C05_MeaningPreserved"} ELSE {})

\* a model built by the repository's own example scripts (harness/wildmodels.py): no blueprint, no ledger comparison
HarvestClauses(e) ==
    PropClauses(e)
    \cup (IF e.hasext /\ ~AllTrue(e.numeraire, 1) THEN {"C07_NumeraireValueZero"} ELSE {})

Clauses(b, s0, e) ==
    PropClauses(e)
    \cup (IF HasExt(b) /\ ~AllTrue(e.numeraire, 1) THEN {"C07_NumeraireValueZero"} ELSE {})
    \* (a sector that keeps its books in the NUMERAIRE has its own-currency legs in NET_NUMERAIRE, as a CAD sector has
    \* in NET_CAD: the 'numeraire position stays at zero' sentence is about models without such a sector)
    \cup (IF HasExt(b) /\ ~b.gold /\ ~(\E s \in 1..NSec(b) : Sec(b, s).cc = "EXT") /\ ~AllTrue(e.numflat, 1)
          THEN {"C07_PairedLeavesNumeraireFlat"} ELSE {})
    \cup (IF \E i \in 1..Len(e.credits) : ~e.credits[i].ok THEN {"C07_Credit"} ELSE {})
    \cup (IF LedgerDrift(b, s0, e) THEN {"drift_ledger"} ELSE {})
    \cup (IF VarsDrift(b, s0, e) THEN {"drift_vartable"} ELSE {})

RECURSIVE JoinSet(_)
JoinSet(S) == IF S = {} THEN "" ELSE LET x == CHOOSE y \in S : TRUE IN x \o "," \o JoinSet(S \ {x})

TraceInit == /\ bp = (CHOOSE b \in Blueprints : TRUE) /\ phase = "declare" /\ decl = << >> /\ gi = 0
             /\ st = InitialSt(bp) /\ l = 1 /\ fails = {}

Reset == /\ bp' \in { CHOOSE b \in Blueprints : TRUE } /\ phase' = "declare" /\ decl' = << >> /\ gi' = 0
         /\ st' = InitialSt(bp')

TraceNext ==
    /\ l <= Len(Log)
    /\ l' = l + 1
    /\ LET e == Log[l] IN
       \/ /\ e.ev = "BuildStart"        \* the model has been declared; main() is about to run
          /\ bp' = LookupBp(e.name)
          /\ decl' = e.decl
          /\ st' = LateMarkets(DeclareAll(InitialSt(bp'), bp', decl'), bp', NSec(bp'))
          /\ phase' = "gen" /\ gi' = 1
          /\ fails' = fails
       \/ /\ e.ev = "Phase" /\ e.kind = "Generate"     \* one sector's _GenerateEquations returned
          /\ IF phase = "gen" /\ gi <= NSec(bp)
             THEN /\ st' = Gen(st, bp, decl, GenOrder(bp, decl)[gi])
                  /\ gi' = gi + 1
                  /\ fails' = fails
                        \cup (IF e.sector # GenOrder(bp, decl)[gi] THEN {"drift_generate_order"} ELSE {})
                        \cup (IF e.observable /\ st'.err = NoErr /\ PhaseLedgerDrift(st', e) THEN {"drift_phase_generate"} ELSE {})
             ELSE /\ st' = st /\ gi' = gi /\ fails' = fails \cup {"drift_unexpected_generate"}
          /\ UNCHANGED << bp, phase, decl >>
       \/ /\ e.ev = "Phase" /\ e.kind = "CashFlows"
          /\ st' = CashFlowsOp(st, bp, bp.flows \o st.reg)
          /\ phase' = "flows"
          /\ fails' = fails \cup (IF e.observable /\ st'.err = NoErr /\ PhaseLedgerDrift(st', e) THEN {"drift_phase_cashflows"} ELSE {})
                             \cup (IF gi # NSec(bp) + 1 THEN {"drift_generate_count"} ELSE {})
          /\ UNCHANGED << bp, decl, gi >>
       \/ /\ e.ev = "Phase" /\ e.kind = "Exogenous"
          /\ st' = ExoOp(st, bp.exo)
          /\ phase' = "exo"
          /\ fails' = fails \cup (IF e.observable /\ st'.err = NoErr /\ PhaseLedgerDrift(st', e) THEN {"drift_phase_exogenous"} ELSE {})
          /\ UNCHANGED << bp, decl, gi >>
       \/ /\ e.ev = "Build"
          /\ bp' = LookupBp(e.name)
          /\ decl' = e.decl
          /\ st' = RunAll(bp', decl')
          /\ phase' = IF st'.err = NoErr THEN "final" ELSE "error"
          /\ gi' = 0
          /\ fails' = fails
                \cup (IF (e.outcome = "error") # (st'.err # NoErr) THEN {"drift_outcome"} ELSE {})
                \* refusals required by the properties: an ill-formed model must not produce equations
                \cup (IF ~bp'.wellformed /\ e.outcome # "error"
                      THEN (IF bp'.name \in {"NOEXT1", "NOEXT2", "NOEXT3"} THEN {"C07_RefusedWithoutExternal", "C11_RejectsInvalid"}
                            ELSE {"C11_RejectsInvalid"})
                      ELSE {})
                \cup (IF bp'.wellformed /\ e.outcome = "error" THEN {"drift_wellformed_rejected"} ELSE {})
       \/ /\ e.ev = "Final"
          /\ fails' = fails \cup Clauses(bp, st, e)
          /\ UNCHANGED vars
       \/ /\ e.ev = "Harvested"    \* a model of the repository's example scripts, projected like a blueprint build
          /\ fails' = fails \cup HarvestClauses(e)
          /\ UNCHANGED vars
       \/ /\ e.ev = "Compare"      \* two real builds of the same blueprint compared with each other (C08, C18)
          /\ fails' = fails
                \cup (IF e.required /\ e.decided /\ ~(e.same_vars /\ e.same_series) THEN {e.clause} ELSE {})
                \cup (IF e.required /\ ~e.both_built THEN {e.clause} ELSE {})
                \cup (IF e.kind = "order" /\ e.decided /\
                         ((NormSt(RunAll(LookupBp(e.name), e.decl)) = NormSt(RunAll(LookupBp(e.name), CanonOrder(LookupBp(e.name)))))
                            # (e.same_vars /\ e.same_series))
                      THEN {"drift_order_equivalence"} ELSE {})
          /\ UNCHANGED vars
       \/ /\ e.ev = "Undecided"      \* the exact oracle could not decide this model: no statement
          /\ fails' = fails \cup {"undecided_" \o e.why}
          /\ UNCHANGED vars
       \/ /\ e.ev = "End"
          /\ PrintT(<< "VERDICT", e.tid, "clauses:" \o JoinSet(fails) >>)
          /\ fails' = {}
          /\ Reset

TraceSpec == TraceInit /\ [][TraceNext]_tvars
AllConsumed == TLCGet("stats").diameter - 1 = Len(Log)
=============================================================================
