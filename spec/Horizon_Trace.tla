--------------------------- MODULE Horizon_Trace ---------------------------
(* Trace validation for Horizon: executions of the real EquationSolver (and of the   *)
(* Model / Sector API on top of it), recorded by harness/checks/c10.py, are judged    *)
(* against the SUPPLIED data carried by the events, re-using ParseOp / SolveOp.       *)
(* One total verdict per trace id.                                                    *)
(* A trace is a history on one solver object: Parse [Solve] [Parse [Solve]]; the spec  *)
(* state carries the solver attribute (smax) from one round into the next.             *)
(*   Parse event:  fresh (new solver object, or the one of the previous round), cfg    *)
(*                 (block, exogenous spec and values, ICs, horizon, where, late, bmax, *)
(*                 reduce, solve), api, dress ("int": the supplied values are the small      *)
(*                 integers of cfg; "float": seeded random floats of the same shape,  *)
(*                 compared in Python), ok/exc, observed classification and MaxTime   *)
(*   Solve event:  ok/exc, ts_empty, taxis (t = k for k >= 1), taxis0 (t[0] = 0), obs = per variable [name, len, icv, exov, *)
(*                 lagv, integral, vals]  (Booleans by exact float equality in        *)
(*                 Python; vals = the series as integers when integral)               *)
(*   property:<clause>  a sentence of C10 is false on the observed outcome            *)
(*   drift:<clause>     the code did something the spec action does not predict, in   *)
(*                      an aspect the statement does not fix (time-zero value of a    *)
(*                      variable without initial condition, values of simultaneous    *)
(*                      variables, classification, a raise on an accepted form)       *)
EXTENDS Horizon, Json, IOUtils

Log == ndJsonDeserialize(IOEnv.TRACE_FILE)

VARIABLES l, verdict, rnd
tvars == << hvars, l, verdict, rnd >>

(* rnd = number of Parse events of the trace so far; a verdict names the round it was given in *)
Ok == [kind |-> "ok", clause |-> "", rnd |-> 0]
P(c) == [kind |-> "property", clause |-> c, rnd |-> rnd']
D(c) == [kind |-> "drift", clause |-> c, rnd |-> rnd']
Rank(v) == CASE v.kind = "ok" -> 0 [] v.kind = "drift" -> 1 [] v.kind = "property" -> 2
Worse(a, b) == IF Rank(b) > Rank(a) THEN b ELSE a     \* keeps the first of equal rank

NoCfg == [bp |-> "", vars |-> << >>, exo |-> [form |-> "list", vals |-> << >>, v |-> 0],
          ics |-> << >>, icform |-> "float", horizon |-> 0, where |-> "default", reduce |-> TRUE,
          late |-> 0, bmax |-> 0, solve |-> TRUE]

----------------------------------------------------------------------------
(* Parse: conformance only *)
ClsOf(v, dec) == IF v.cls = "sim" THEN (IF v.name \in dec THEN "deco" ELSE "endo") ELSE v.cls
ExpectedClasses(s) == { [name |-> s.vars[i].name, cls |-> ClsOf(s.vars[i], s.deco), src |-> s.vars[i].src]
                        : i \in 1..Len(s.vars) }
ObservedClasses(e) == { e.classes[i] : i \in 1..Len(e.classes) }

JudgeParse(e, s) ==
    IF ~e.ok THEN (IF RejectedInput(e.cfg) THEN Ok ELSE D("unexpected_raise_parse"))
    ELSE IF ObservedClasses(e) # ExpectedClasses(s) THEN D("classification")
    ELSE IF e.maxtime # s.horizon THEN D("maxtime")
    ELSE Ok

----------------------------------------------------------------------------
(* Solve *)
HasObs(e, n) == \E i \in 1..Len(e.obs) : e.obs[i].name = n
ObsOf(e, n)  == e.obs[CHOOSE i \in 1..Len(e.obs) : e.obs[i].name = n]
Required(s)  == Names(s.vars) \cup {"k"}
Ints(e, o)   == e.dress = "int" /\ o.integral

LengthsOK(e, s) ==
    /\ \A n \in Required(s) : HasObs(e, n)
    /\ \A i \in 1..Len(e.obs) : e.obs[i].len = s.horizon + 1

ExoOK(e, s, c) ==
    \A n \in ExoNames(s.vars) :
        LET o == ObsOf(e, n)
        IN /\ o.exov
           /\ Ints(e, o) => \A i \in 1..(s.horizon + 1) : i <= Len(o.vals) => o.vals[i] = SuppliedAt(c, i)

ICOK(e, s, c) ==
    \A i \in 1..Len(c.ics) :
        c.ics[i].name \in Names(s.vars) =>
            LET o == ObsOf(e, c.ics[i].name)
            IN /\ o.icv
               /\ (Ints(e, o) /\ Len(o.vals) >= 1) => o.vals[1] = ICVal(c, c.ics[i].name)

LagOK(e, s) ==
    \A i \in LagIdx(s.vars) :
        LET o == ObsOf(e, s.vars[i].name)
            q == ObsOf(e, s.vars[i].src)
        IN /\ o.lagv
           /\ (Ints(e, o) /\ Ints(e, q)) =>
                 \A k \in 1..s.horizon : (k + 1 <= Len(o.vals) /\ k <= Len(q.vals)) => o.vals[k + 1] = q.vals[k]

TimeOK(e, s, c) ==
    HasUserT(c.vars) \/                      \* (a missing t is C10_Lengths, judged before this)
        LET o == ObsOf(e, "t")
        IN /\ e.taxis                                  \* t[k] = k for k >= 1
           /\ "t" \notin ICNames(c) => e.taxis0       \* t[0] = 0 unless an initial condition is stated
           /\ Ints(e, o) => \A k \in 0..s.horizon :
                                (k + 1 <= Len(o.vals) /\ (k > 0 \/ "t" \notin ICNames(c))) => o.vals[k + 1] = k

SeriesOK(e, E) ==
    e.dress = "int" => \A n \in DOMAIN E.series : ObsOf(e, n).integral /\ ObsOf(e, n).vals = E.series[n]

JudgeSolve(e, c, s) ==
    LET E == SolveOp(s, c)
    IN IF RejectedInput(c)
       THEN IF e.ok THEN P("C10_Rejects")
            ELSE IF E.phase # "reject" THEN D("spec_did_not_reject")
            ELSE IF ~e.ts_empty THEN D("reject_left_series")
            ELSE IF e.exc \notin {"ValueError", "TypeError"} THEN D("reject_class")
            ELSE Ok
       ELSE IF ~e.ok THEN D("unexpected_raise")
       ELSE IF ~LengthsOK(e, s) THEN P("C10_Lengths")
       ELSE IF ~ExoOK(e, s, c) THEN P("C10_ExoVerbatim")
       ELSE IF ~ICOK(e, s, c) THEN P("C10_ICVerbatim")
       ELSE IF ~LagOK(e, s) THEN P("C10_LagShift")
       ELSE IF ~TimeOK(e, s, c) THEN P("C10_TimeAxis")
       ELSE IF E.phase # "done" THEN D("spec_did_not_finish")
       ELSE IF ~SeriesOK(e, E) THEN D("series")
       ELSE Ok

----------------------------------------------------------------------------
TraceInit == /\ cfg = NoCfg /\ phase = S0.phase /\ vlist = S0.vars /\ deco = S0.deco
             /\ horizon = S0.horizon /\ series = S0.series /\ tz = S0.tz /\ step = S0.step
             /\ err = S0.err /\ smax = S0.smax /\ plan = << >> /\ idx = 0 /\ l = 1 /\ verdict = Ok
             /\ rnd = 0

TraceNext ==
    /\ l <= Len(Log)
    /\ l' = l + 1
    /\ UNCHANGED << plan, idx >>
    /\ LET e == Log[l] IN
       \/ /\ e.ev = "Parse"          \* e.fresh: a new solver object; else the one of the previous round
          /\ cfg' = e.cfg /\ rnd' = rnd + 1
          /\ LET s == ParseOp(e.cfg, IF e.fresh THEN -1 ELSE smax)
             IN Become(s) /\ verdict' = Worse(verdict, JudgeParse(e, s))
       \/ /\ e.ev = "Solve"
          /\ UNCHANGED << cfg, rnd >>
          /\ Become(SolveOp(S, cfg))
          /\ verdict' = Worse(verdict, JudgeSolve(e, cfg, S))
       \/ /\ e.ev = "End"
          /\ PrintT(<< "VERDICT", e.tid, verdict.kind \o ":" \o verdict.clause \o ":" \o ToString(verdict.rnd) >>)
          /\ cfg' = NoCfg /\ Become(S0) /\ rnd' = 0
          /\ verdict' = Ok

TraceSpec == TraceInit /\ [][TraceNext]_tvars

AllConsumed == TLCGet("stats").diameter - 1 = Len(Log)
=============================================================================
