SPECIFICATION Spec
CONSTANTS
  LineForms <- MC_FormsEnd
  FirstForms <- MC_FormsEnd
  MaxLines = 2
  MaxBlocks = 1
  AsFound_MarkerTestedOnRawLine = FALSE
INVARIANT TypeOK
INVARIANT C14_ExactlyOneClass
INVARIANT C14_MeaningUnchanged
INVARIANT C14_TimeSupplied
INVARIANT C14_MalformedReported
INVARIANT C14_BlockAlone
INVARIANT C14_CommentsInert
CONSTRAINT Emit
CHECK_DEADLOCK FALSE
