SPECIFICATION Spec
CONSTANTS
  CountryCodes = {"A", "B", "C"}
  Currencies = {"X"}
  SectorCodes = {"HH", "GOV"}
  InitialDefault = "LOCAL"
  AbsentCode = "NOPE"
  MaxHist = 6
  MaxCountries = 2
  MaxSectors = 4
  MaxQueries = 0
INVARIANT TypeOK
INVARIANT Lookup_FindsExactlyTheDeclared
INVARIANT Zone_PartitionByCurrency
INVARIANT Region_DefaultCurrency
INVARIANT FullCode_Rule
INVARIANT Lookup_DuplicateRejected
CHECK_DEADLOCK FALSE
CONSTRAINT OrderedStart
CONSTRAINT EmitStart
