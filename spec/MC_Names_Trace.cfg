SPECIFICATION TraceSpec
CONSTANTS
  Vars = {}
  Places = {}
  MaxRequests = 1000
  AsFound_GlobalNotFixed = FALSE
POSTCONDITION AllConsumed
CHECK_DEADLOCK FALSE
