SPECIFICATION Spec
CONSTANTS
  NVarsSet <- MC_N12
  Grid <- MC_GridQuick
  MaxExcluded = 1
  AllowMalformed = TRUE
  AsFound_SignedRelativeTest = FALSE
  AsFound_NearZeroBandIgnoresDrift = TRUE
INVARIANT TypeOK
INVARIANT C15_AcceptedIsSteady
INVARIANT C15_OtherwiseRaises
PROPERTY C15_LeavesSolverUntouched
CHECK_DEADLOCK FALSE
