------------------------------- MODULE Solver -------------------------------
(* sfc_models/equation_solver.py: the per-period control structure of               *)
(* EquationSolver.SolveEquation / SolveStep / _SolveStep as a state machine.         *)
(*                                                                                    *)
(*   relative_error = 1.; num_tries = 0                         BeginStep            *)
(*   while <loop condition on relative_error>:                                        *)
(*       one Jacobi sweep over the simultaneous equations       Sweep(outcome)        *)
(*       num_tries += 1                                                               *)
(*       if num_tries > MaxIterations:                                                *)
(*           raise ValueError if had_evaluation_errors          RaiseValue            *)
(*           raise ConvergenceError                             RaiseConvergence      *)
(*   (loop left)                                                ExitLoop              *)
(*   if had_evaluation_errors: raise ValueError                 RaiseValue            *)
(*   append simultaneous + lagged values                        Append                *)
(*   evaluate + append decorative values (may raise)            Decorate(outcome)     *)
(*   after the last period                                      Finish                *)
(*                                                                                    *)
(* Numbers are abstracted to classes: the error measure is "le_tol", "gt_tol" or      *)
(* "nan"; the iterate is "finite", "inf" or "nan".  As soon as an iterate is not      *)
(* finite the error measure of the sweep is NaN (inf-inf, inf/inf).                   *)
(*                                                                                    *)
(* AsFound_NaNExitsLoop          TRUE: loop condition `relative_error > err_toler`    *)
(*                               (a NaN error leaves the loop, the period is appended)*)
(*                               FALSE: `not (relative_error <= err_toler)`           *)
(* AsFound_DecorativeAfterAppend TRUE: simultaneous values are appended before the    *)
(*                               decorative values are evaluated (an error in the     *)
(*                               decorative pass leaves unequal lengths)              *)
(*                               FALSE: decorative values are evaluated first and     *)
(*                               everything is appended only if all succeeded         *)
(*                                                                                    *)
(* AsFound_NoSweepAtBigTolerance  The error measure starts at 1. before the first sweep *)
(*                               (`relative_error = 1.`).  With a tolerance >= 1 (state *)
(*                               field `big`: block line Err_Tolerance = 2.0 or          *)
(*                               ParameterErrorTolerance = 2.0) the start value already  *)
(*                               meets the tolerance.  TRUE: the loop condition is tested*)
(*                               before the first sweep, so NO sweep is made and the     *)
(*                               values of the previous period are appended as solved.   *)
(*                               FALSE: at least one sweep is made in every period.      *)
(*                                                                                    *)
(* Caller level: SolveStep(k) may be called again after it raised (action Retry), with *)
(* a raised MaxIterations and / or a loosened tolerance, which then stay in force.     *)
(* A period is recorded all-or-nothing: a failed attempt appends nothing                *)
(* (C02_PeriodAllOrNothing), so the retry starts from the same series.                 *)
(* LaggedRecordedAtSetup = TRUE models lagged values appended when the period is set   *)
(* up: after a failed attempt the lagged series is one entry longer, the retry appends *)
(* it again - TLC finds the counterexample.                                            *)
(*                                                                                    *)
(* Every action is written through a pure operator on a state record (`*Op`); the     *)
(* trace specification Solver_Trace composes the same operators.                      *)
EXTENDS Integers, Sequences, TLC, FiniteSets

CONSTANTS Cap,       \* MaxIterations
          Horizon,   \* MaxTime
          AsFound_NaNExitsLoop,
          AsFound_DecorativeAfterAppend,
          AsFound_NoSweepAtBigTolerance,
          MaxRetries,   \* how often the caller calls SolveStep again for a period that raised (per run)
          CapBoost,     \* by how much the caller may raise MaxIterations before the retry
          ZeroChoices,            \* is the requested tolerance exactly 0 (solver parameter or block line)?
          ZeroToleranceFallsBack, \* FALSE = the code: a requested tolerance of 0 is used as such
          SweepAlphabet, DecoAlphabet, BigChoices,   \* the instance: outcomes / start tolerance classes explored
          LaggedRecordedAtSetup,  \* FALSE = the code: a period is recorded all-or-nothing, at its end
          Hyp_NoCap               \* FALSE = the code.  TRUE (hypothetical): the cap test is dropped - the loop goes on
                                  \* for as long as the error stays above the tolerance (liveness counterexample)

Classes == {"sim", "lag", "deco", "exo"}
NonExo == {"sim", "lag", "deco"}
ErrClasses == {"le_tol", "gt_tol", "nan"}
IterClasses == {"finite", "inf", "nan"}
Raised == {"raised_convergence", "raised_value", "raised_other"}
Statuses == {"idle", "iterating", "exited", "appended", "decorating", "done"} \cup Raised

(* outcome of one sweep *)
SweepOutcomes == {"converge",    \* all changes small: error <= tolerance, no evaluation error
                  "notyet",      \* error > tolerance, no evaluation error
                  "approx",      \* 0 < error <= the block's default tolerance: meets every tolerance > 0 in use,
                                 \* does NOT meet a requested tolerance of exactly 0
                  "overflow",    \* an iterate becomes / stays inf: error measure NaN
                  "overflow_nan",\* an iterate becomes NaN (inf-inf under damping): error measure NaN
                  "everr_le",    \* ZeroDivisionError / ValueError caught, rest converged
                  "everr_gt",    \* ZeroDivisionError / ValueError caught, error > tolerance
                  "other"}       \* an exception the sweep does not catch (OverflowError, ...)
DecoOutcomes == {"ok", "value_error", "other_error"}

(* ---------------------------------------------------------------------------------- *)
(* the loop condition *)
LoopContinues(errc) ==
    IF AsFound_NaNExitsLoop THEN errc = "gt_tol"           \* relative_error > err_toler
    ELSE errc # "le_tol"                                   \* not (relative_error <= err_toler)

(* the test made at the top of the loop, in state st *)
LoopContinuesIn(st) ==
    IF st.sweep = 0 /\ ~AsFound_NoSweepAtBigTolerance THEN TRUE      \* a first sweep is always made
    ELSE LoopContinues(st.errc)

Completed == IF AsFound_DecorativeAfterAppend THEN "decorating" ELSE "appended"

InitState(h, big, cap) ==
                [cap |-> cap, retries |-> 0, step |-> 0, sweep |-> 0, errc |-> "gt_tol", evalErr |-> FALSE, iter |-> "finite",
                 status |-> "idle", big |-> big,
                 zero |-> FALSE,      \* the requested tolerance is exactly 0
                 met |-> FALSE,       \* the error measure of the last sweep meets the REQUESTED tolerance
                 len |-> [c \in Classes |-> IF c = "exo" THEN h + 1 ELSE 1]]

BeginStepEnabled(st, h) == st.status \in {"idle", Completed} /\ st.step < h
\* relative_error = 1.: above a tolerance < 1, within a tolerance >= 1
BeginStepOp(st) == [st EXCEPT !.step = @ + 1, !.sweep = 0,
                              !.errc = IF st.big THEN "le_tol" ELSE "gt_tol", !.met = st.big, !.evalErr = FALSE,
                              !.iter = "finite", !.status = "iterating",
                              !.len = IF LaggedRecordedAtSetup
                                      THEN [c \in Classes |-> IF c = "lag" THEN @[c] + 1 ELSE @[c]] ELSE @]

(* the caller calls SolveStep for the same period again, after changing MaxIterations / the tolerance *)
RetryEnabled(st, maxr) == st.status \in Raised /\ st.retries < maxr
RetryOp(st, newcap, newbig) ==
    [st EXCEPT !.sweep = 0, !.errc = IF newbig THEN "le_tol" ELSE "gt_tol", !.met = newbig, !.evalErr = FALSE,
               !.iter = "finite", !.status = "iterating", !.cap = newcap, !.big = newbig,
               !.retries = @ + 1,
               !.len = IF LaggedRecordedAtSetup
                       THEN [c \in Classes |-> IF c = "lag" THEN @[c] + 1 ELSE @[c]] ELSE @]

SweepEnabled(st, cap, o) ==
    /\ st.status = "iterating"
    /\ (Hyp_NoCap \/ st.sweep <= cap) \* otherwise the cap test has raised
    /\ LoopContinuesIn(st)
    /\ (st.iter # "finite" => o \in {"overflow", "overflow_nan", "other"})
SweepOp(st, o) ==
    IF o = "other" THEN [st EXCEPT !.status = "raised_other"]
    ELSE [st EXCEPT !.sweep = IF Hyp_NoCap /\ @ > st.cap THEN @ ELSE @ + 1,    \* (the hypothetical counter saturates)
                    !.evalErr = (o \in {"everr_le", "everr_gt"}),
                    !.iter = CASE o = "overflow" -> "inf" [] o = "overflow_nan" -> "nan" [] OTHER -> "finite",
                    !.met = (o \in {"converge", "everr_le"}) \/ (o = "approx" /\ ~st.zero),
                    \* the tolerance the loop tests against: the requested one; with ZeroToleranceFallsBack a
                    \* requested 0 is silently replaced by the block's default
                    !.errc = CASE o \in {"converge", "everr_le"} -> "le_tol"
                               [] o \in {"notyet", "everr_gt"} -> "gt_tol"
                               [] o = "approx" -> IF st.zero /\ ~ZeroToleranceFallsBack THEN "gt_tol" ELSE "le_tol"
                               [] OTHER -> "nan"]

(* m sweeps of outcome "notyet" in one go (used by the trace specification) *)
JumpEnabled(st, cap, m) == st.status = "iterating" /\ st.iter = "finite" /\ (m > 0 => LoopContinuesIn(st))
                           /\ st.sweep + m - 1 <= cap
JumpOp(st, m) == IF m = 0 THEN st
                 ELSE [st EXCEPT !.sweep = @ + m, !.evalErr = FALSE, !.errc = "gt_tol"]

CapHit(st, cap) == ~Hyp_NoCap /\ st.status = "iterating" /\ st.sweep > cap
RaiseConvergenceEnabled(st, cap) == CapHit(st, cap) /\ ~st.evalErr
RaiseValueEnabled(st, cap) == (CapHit(st, cap) /\ st.evalErr) \/ (st.status = "exited" /\ st.evalErr)
RaiseOp(st, kind) == [st EXCEPT !.status = kind]

ExitLoopEnabled(st, cap) == st.status = "iterating" /\ (Hyp_NoCap \/ st.sweep <= cap) /\ ~LoopContinuesIn(st)
ExitLoopOp(st) == [st EXCEPT !.status = "exited"]

Bump(len, S) == [c \in Classes |-> IF c \in S THEN len[c] + 1 ELSE len[c]]

AppendEnabled(st) ==
    IF AsFound_DecorativeAfterAppend THEN st.status = "exited" /\ ~st.evalErr
    ELSE st.status = "decorating"
AppendOp(st) ==
    IF AsFound_DecorativeAfterAppend
    THEN [st EXCEPT !.status = "appended",
                    !.len = Bump(@, IF LaggedRecordedAtSetup THEN {"sim"} ELSE {"sim", "lag"})]
    ELSE [st EXCEPT !.status = "appended",
                    !.len = Bump(@, IF LaggedRecordedAtSetup THEN NonExo \ {"lag"} ELSE NonExo)]

DecorateEnabled(st) ==
    IF AsFound_DecorativeAfterAppend THEN st.status = "appended"
    ELSE st.status = "exited" /\ ~st.evalErr
DecorateOp(st, d) ==
    IF d = "ok"
    THEN [st EXCEPT !.status = "decorating",
                    !.len = IF AsFound_DecorativeAfterAppend THEN Bump(@, {"deco"}) ELSE @]
    ELSE [st EXCEPT !.status = IF d = "value_error" THEN "raised_value" ELSE "raised_other"]

\* (a horizon of 0 periods: SolveEquation returns right after the initial conditions)
FinishEnabled(st, h) == (st.status = Completed \/ (st.status = "idle" /\ h = 0)) /\ st.step = h
FinishOp(st) == [st EXCEPT !.status = "done"]

(* ---------------------------------------------------------------------------------- *)
VARIABLES step, sweep, errc, evalErr, iter, status, len,
          big,      \* the tolerance in force is >= 1
          zero, met,  \* the requested tolerance is exactly 0; the last sweep met the requested tolerance
          cap,      \* MaxIterations in force
          retries,  \* retries made in this run
          hist      \* history: one record per period (what the replay driver realises)

vars == << step, sweep, errc, evalErr, iter, status, len, big, zero, met, cap, retries, hist >>

St == [step |-> step, sweep |-> sweep, errc |-> errc, evalErr |-> evalErr, iter |-> iter,
       status |-> status, len |-> len, big |-> big, zero |-> zero, met |-> met, cap |-> cap, retries |-> retries]

Set(st) == /\ step' = st.step /\ sweep' = st.sweep /\ errc' = st.errc /\ evalErr' = st.evalErr
           /\ iter' = st.iter /\ status' = st.status /\ len' = st.len /\ big' = st.big /\ zero' = st.zero /\ met' = st.met
           /\ cap' = st.cap /\ retries' = st.retries

(* one record per ATTEMPT: period k, with the cap and tolerance class in force *)
NewAttempt(k, c, b) == [k |-> k, cap |-> c, big |-> b, zero |-> zero, n |-> 0, tr |-> FALSE, last |-> "none", exit |-> "none",
                        deco |-> "none"]
Cur == Len(hist)

Init == \E b \in BigChoices, z \in ZeroChoices :
        LET s0 == InitState(Horizon, b, Cap)
        IN /\ ~(b /\ z) /\ zero = z /\ met = FALSE
           /\ big = b /\ cap = Cap /\ retries = 0
           /\ step = s0.step /\ sweep = s0.sweep /\ errc = s0.errc /\ evalErr = s0.evalErr
           /\ iter = s0.iter /\ status = s0.status /\ len = s0.len /\ hist = << >>

BeginStep == /\ BeginStepEnabled(St, Horizon)
             /\ Set(BeginStepOp(St))
             /\ hist' = Append(hist, NewAttempt(step + 1, cap, big))

Retry(newcap, newbig) ==
    /\ RetryEnabled(St, MaxRetries)
    /\ Set(RetryOp(St, newcap, newbig))
    /\ hist' = Append(hist, NewAttempt(step, newcap, newbig))

Sweep(o) == /\ SweepEnabled(St, cap, o)
            /\ Set(SweepOp(St, o))
            /\ hist' = [hist EXCEPT ![Cur] =
                          [@ EXCEPT !.n = IF o = "other" \/ (Hyp_NoCap /\ @ > cap) THEN @ ELSE @ + 1,
                                    \* an evaluation error that a later sweep no longer has = transient
                                    !.tr = @ \/ (evalErr /\ o \notin {"everr_le", "everr_gt", "other"}),
                                    !.last = o,
                                    !.exit = IF o = "other" THEN "raised_other" ELSE @]]

ExitLoop == /\ ExitLoopEnabled(St, cap) /\ Set(ExitLoopOp(St)) /\ UNCHANGED hist

RaiseConvergence == /\ RaiseConvergenceEnabled(St, cap) /\ Set(RaiseOp(St, "raised_convergence"))
                    /\ hist' = [hist EXCEPT ![Cur].exit = "raised_convergence"]

RaiseValue == /\ RaiseValueEnabled(St, cap) /\ Set(RaiseOp(St, "raised_value"))
              /\ hist' = [hist EXCEPT ![Cur].exit = "raised_value"]

AppendValues == /\ AppendEnabled(St) /\ Set(AppendOp(St))
                /\ hist' = [hist EXCEPT ![Cur].exit = "appended"]

Decorate(d) == /\ DecorateEnabled(St) /\ Set(DecorateOp(St, d))
               /\ hist' = [hist EXCEPT ![Cur] = [@ EXCEPT !.deco = d,
                                                         !.exit = IF d = "ok" THEN @
                                                                  ELSE IF d = "value_error" THEN "raised_value"
                                                                  ELSE "raised_other"]]

Finish == /\ FinishEnabled(St, Horizon) /\ Set(FinishOp(St)) /\ UNCHANGED hist

Next == \/ BeginStep
        \/ \E c \in {cap, cap + CapBoost}, b \in {big, TRUE} : Retry(c, b)
        \/ \E o \in SweepAlphabet : Sweep(o)
        \/ ExitLoop \/ RaiseConvergence \/ RaiseValue \/ AppendValues
        \/ \E d \in DecoAlphabet : Decorate(d)
        \/ Finish

Spec == Init /\ [][Next]_vars

(* Liveness ("in bounded work", C11): if the solver keeps taking its own steps, every run ends - all periods recorded, *)
(* or an error raised that no caller retries any more - and stays there.  The cap is what makes this true: with       *)
(* Hyp_NoCap a system whose error never meets the tolerance sweeps for ever (MC_Solver_live_nocap.cfg).               *)
FairSpec == Spec /\ WF_vars(Next)
RunOver == status = "done" \/ (status \in Raised /\ retries = MaxRetries)
C11_Terminates == <>[]RunOver

(* ---------------------------------------------------------------------------------- *)
TypeOK == /\ big \in BOOLEAN /\ SweepAlphabet \subseteq SweepOutcomes /\ DecoAlphabet \subseteq DecoOutcomes
          /\ BigChoices \subseteq BOOLEAN /\ ZeroChoices \subseteq BOOLEAN /\ zero \in BOOLEAN /\ met \in BOOLEAN
          /\ step \in 0..Horizon /\ sweep \in 0..(Cap + MaxRetries * CapBoost + 1)
          /\ cap \in Cap..(Cap + MaxRetries * CapBoost) /\ retries \in 0..MaxRetries
          /\ errc \in ErrClasses /\ iter \in IterClasses /\ evalErr \in BOOLEAN
          /\ status \in Statuses
          /\ \A c \in Classes : len[c] \in 1..(Horizon + 1 + MaxRetries)

(* C02: a period is reported as solved only after the error measure met the tolerance,  *)
(* with finite iterates and without evaluation error in the last sweep                  *)
C02_SolvedOnlyIfConverged ==
    status \in {"appended", "decorating", "done"} => errc = "le_tol" /\ iter = "finite" /\ ~evalErr

(* C02: nothing is reported as solved without a sweep over the equations (else the residual is not *)
(* related to the tolerance at all)                                                             *)
C02_SolvedOnlyAfterSweep ==
    status \in {"exited", "appended", "decorating"} => sweep >= 1

(* C02: a period is recorded all-or-nothing - while it is being solved and after it has failed, *)
(* nothing of it is in the series, so solving it again starts from the same series            *)
C02_PeriodAllOrNothing ==
    status \in {"iterating", "exited"} \cup Raised => \A c \in NonExo : len[c] = step

(* C11: a period is reported as solved only if the error measure met the tolerance that was REQUESTED *)
C11_SolvedOnlyAtRequestedTolerance ==
    status \in {"exited", "appended", "decorating"} /\ sweep >= 1 => met

(* C11 *)
C11_BoundedSweeps == sweep <= cap + 1

C11_FailureRaises ==
    [][ /\ (status = "iterating" /\ sweep > cap) => status' \in Raised
        /\ (status = "iterating" /\ sweep > cap /\ evalErr) => status' = "raised_value"
        /\ (status = "iterating" /\ sweep > cap /\ ~evalErr) => status' = "raised_convergence"
        /\ (status = "exited" /\ evalErr) => status' = "raised_value" ]_vars

C11_NothingSolvedAtCap == status \in {"exited", "appended", "decorating"} => sweep <= cap

C11_PrefixIntact ==
    [][ \A c \in Classes : len'[c] >= len[c] /\ len'[c] <= len[c] + 1 ]_vars

C11_EqualLengthsAfterFailure ==
    status \in Raised => \A c \in NonExo : len[c] = step

(* lengths of a completed period *)
LengthsOfSolved ==
    status \in {"idle", "done", Completed} => \A c \in NonExo : len[c] = step + 1

(* JumpOp is m-fold Sweep("notyet") *)
RECURSIVE Iterate(_, _)
Iterate(st, m) == IF m = 0 THEN st ELSE Iterate(SweepOp(st, "notyet"), m - 1)
JumpIsIteratedSweep ==
    \A m \in 0..(Cap + 1) :
        LET s0 == BeginStepOp(InitState(Horizon, FALSE, Cap))
        IN /\ JumpOp(s0, m) = Iterate(s0, m)
           /\ JumpEnabled(s0, Cap, m) <=> \A j \in 0..(m - 1) : SweepEnabled(Iterate(s0, j), Cap, "notyet")
=============================================================================
