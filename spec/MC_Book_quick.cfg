SPECIFICATION Spec
CONSTANTS
  Cases <- MCCases
  Horizon = 3
INVARIANT Book_DeficitIsSaving
INVARIANT Book_IncomeIdentity
INVARIANT Book_PortfolioAddsUp
INVARIANT Book_SavingIdentity
CONSTRAINT Emit
CHECK_DEADLOCK FALSE
