SPECIFICATION TraceSpec
CONSTANTS
  Blueprints <- TraceBlueprints
  AsFound_LabourDemandLate = FALSE
  AsFound_LiteralSupGood = FALSE
  AsFound_DividendsPerPayer = FALSE
  AsFound_FirstRecipient = FALSE
POSTCONDITION AllConsumed
CHECK_DEADLOCK FALSE
