--------------------------- MODULE MC_Table_Trace ---------------------------
(* Instance for trace validation: the constants that bound Table!Next are not used, *)
(* the trace drives the actions.                                                     *)
EXTENDS Table_Trace
MC_NoNames == {}
MC_NoHorizons == {}
MC_NoFormats == << >>
=============================================================================
