---------------------------- MODULE Tokens_Trace ----------------------------
(* Trace validation for Tokens: executions of the real list_tokens, replace_token and *)
(* replace_token_from_lookup, recorded by harness/checks/c13.py, are folded through   *)
(* the actions of Tokens.  One total verdict per trace id.                            *)
(*   property:<clause>  a sentence of C13 is false on the observed values             *)
(*   drift:<clause>     the input or the code is not what the spec action predicts    *)
(*                      in an aspect C13 does not fix                                 *)
(* Events of one trace:                                                               *)
(*   Build     toks   the expression (TLC-generated token sequence)                   *)
(*             seen   what Python's tokenize makes of each of the renderings          *)
(*             iok, ivals   value of the dense rendering under Vals (driver)          *)
(*             (one per layout that applies: single-line layouts, and for sequences   *)
(*             with NL / NEWLINE tokens or operators outside brackets the multi-line  *)
(*             ones; line ends are the tokens [NL, "NL"] / [NEWLINE, "NL"])           *)
(*   Rename    map, sp (layout), ok, toks (re-tokenised result), text (line ends      *)
(*             written <NL>), vok, vals                                               *)
(*   RenameOne target, repl, sp, ok, toks, text, vok, vals                            *)
(*   RenameVia route, map, sp, built (the Equation could be constructed), ok, pre     *)
(*             (tokens of the right-hand side before the call), toks (after), vok,    *)
(*             vals; toks2, vok2, vals2: the same for the second equation that owns   *)
(*             the Term objects (routes shared_*; a copy of toks, vok, vals otherwise)*)
(*   ListNames sp, ok, names                                                          *)
(*   End                                                                              *)
EXTENDS Tokens, Json, IOUtils

Log == ndJsonDeserialize(IOEnv.TRACE_FILE)

VARIABLES l, verdict
tvars == << vars, l, verdict >>

Ok == [kind |-> "ok", clause |-> ""]
V(k, c) == [kind |-> k, clause |-> c]
Rank(v) == CASE v.kind = "ok" -> 0 [] v.kind = "drift" -> 1 [] v.kind = "property" -> 2
Worse(a, b) == IF Rank(b) > Rank(a) THEN b ELSE a     \* keeps the first of equal rank

(* ---- the expression: is it one the grammar accepts, do the renderings mean it ---- *)
JudgeBuild(e) ==
    IF ~Accepts(St0, e.toks) THEN V("drift", "input_grammar")
    ELSE IF \E s \in 1..Len(e.seen) : e.seen[s] # e.toks THEN V("drift", "input_tokenization")
    ELSE IF Arith(e.toks) /\ (~e.iok \/ e.ivals # << Eval(e.toks, Vals[1]), Eval(e.toks, Vals[2]) >>)
         THEN V("drift", "input_value")
    ELSE Ok

(* ---- a renaming: the observed result e.toks against the sentences of C13 ---- *)
Expected(ts, i) == Eval(ts, Vals[i])

JudgeRename(e, ts, m, predicted) ==
    IF ~e.ok THEN V("property", "C13_OnlyWholeNames")           \* no expression came back
    ELSE IF ~OnlyWholeNames(ts, m, e.toks) THEN V("property", "C13_OnlyWholeNames")
    ELSE IF ~Simultaneous(ts, m, e.toks) THEN V("property", "C13_Simultaneous")
    ELSE IF AllIdentity(m) /\ e.toks # ts THEN V("property", "C13_Simultaneous")
    ELSE IF MustPreserve(ts, m) /\ (~e.vok \/ e.vals # << Expected(ts, 1), Expected(ts, 2) >>)
         THEN V("property", "C13_ValuePreserved")
    ELSE IF e.toks # predicted THEN V("drift", "subst_op")
    ELSE IF e.text # UntokText(predicted) THEN V("drift", "untokenize_spelling")
    ELSE Ok

(* through Equation / EquationBlock: the sentences on the stored form e.pre; the value is   *)
(* that of the expression (normal forms keep it); an Equation that refuses the text has     *)
(* nothing to rename                                                                        *)
JudgeOwner(e, ts, m, got, vok, vals) ==
    IF ~OnlyWholeNames(e.pre, m, got) THEN V("property", "C13_OnlyWholeNames")
    ELSE IF ~Simultaneous(e.pre, m, got) THEN V("property", "C13_Simultaneous")
    ELSE IF AllIdentity(m) /\ got # e.pre THEN V("property", "C13_Simultaneous")
    ELSE IF MustPreserve(ts, m) /\ (~vok \/ vals # << Expected(ts, 1), Expected(ts, 2) >>)
         THEN V("property", "C13_ValuePreserved")
    ELSE Ok

JudgeVia(e, ts, m) ==
    IF ~e.built THEN Ok
    ELSE IF ~e.ok THEN V("property", "C13_OnlyWholeNames")
    ELSE IF NamesOp(e.pre) # NamesOp(ts) THEN V("drift", "stored_names")
    ELSE Worse(JudgeOwner(e, ts, m, e.toks, e.vok, e.vals), JudgeOwner(e, ts, m, e.toks2, e.vok2, e.vals2))

JudgeList(e, ts, predicted) ==
    IF ~e.ok THEN V("property", "C13_ListIsNamesInOrder")
    ELSE IF ~ListIsNamesInOrder(ts, e.names) THEN V("property", "C13_ListIsNamesInOrder")
    ELSE IF e.names # predicted THEN V("drift", "names_op")
    ELSE Ok

TraceInit == Init /\ l = 1 /\ verdict = Ok

(* the whole expression in one step: the fold of PushOp over the logged tokens *)
RECURSIVE PushAll(_, _)
PushAll(s, ts) == IF ts = << >> THEN s
                  ELSE IF CanPush(s, Head(ts)) THEN PushAll(PushOp(s, Head(ts)), Tail(ts))
                  ELSE [s EXCEPT !.toks = @ \o ts]      \* not in the grammar: keep the tokens, judged as drift

Build(ts) ==
    /\ mode' = "build"
    /\ st' = PushAll(St0, ts)
    /\ acts' = << >> /\ ren' = << >> /\ res' = << >> /\ names' = << >>

TraceNext ==
    /\ l <= Len(Log)
    /\ l' = l + 1
    /\ LET e == Log[l] IN
       \/ /\ e.ev = "Build"
          /\ Build(e.toks)
          /\ verdict' = Worse(verdict, JudgeBuild(e))
       \/ /\ e.ev = "Rename"
          /\ IF Ready THEN Rename(e.map) ELSE UNCHANGED vars
          /\ verdict' = Worse(verdict, IF Ready THEN JudgeRename(e, toks, e.map, res')
                                       ELSE V("drift", "not_ready"))
       \/ /\ e.ev = "RenameVia"
          /\ IF Ready /\ OneLine(toks) THEN RenameVia(e.route, e.map) ELSE UNCHANGED vars
          /\ verdict' = Worse(verdict, IF Ready /\ OneLine(toks) THEN JudgeVia(e, toks, e.map)
                                       ELSE V("drift", "not_ready"))
       \/ /\ e.ev = "RenameOne"
          /\ IF Ready THEN RenameOne(e.target, e.repl) ELSE UNCHANGED vars
          /\ verdict' = Worse(verdict, IF Ready THEN JudgeRename(e, toks, ren', res')
                                       ELSE V("drift", "not_ready"))
       \/ /\ e.ev = "ListNames"
          /\ IF Ready THEN ListNames ELSE UNCHANGED vars
          /\ verdict' = Worse(verdict, IF Ready THEN JudgeList(e, toks, names')
                                       ELSE V("drift", "not_ready"))
       \/ /\ e.ev = "End"
          /\ PrintT(<< "VERDICT", e.tid, verdict.kind \o ":" \o verdict.clause >>)
          /\ mode' = "build" /\ st' = St0 /\ acts' = << >> /\ ren' = << >> /\ res' = << >> /\ names' = << >>
          /\ verdict' = Ok

TraceSpec == TraceInit /\ [][TraceNext]_tvars

AllConsumed == TLCGet("stats").diameter - 1 = Len(Log)
=============================================================================
