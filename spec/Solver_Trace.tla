---------------------------- MODULE Solver_Trace ----------------------------
(* Trace validation for Solver: executions of the real EquationSolver, recorded by    *)
(* harness/solverkit.py (one event per solved / failed period, then Finish), are      *)
(* folded through the operators of Solver.  One total verdict per trace id.           *)
(*                                                                                    *)
(* Grain: the code's sweeps are not logged one by one.  A logged Step with n sweeps   *)
(* is  BeginStep . Sweep^n . [ExitLoop . Decorate . Append, or a Raise] of the spec;  *)
(* the judge looks for the last sweep's outcome o and the decorative outcome d        *)
(* (bounded existential over SweepOutcomes x DecoOutcomes) such that the composed     *)
(* path ends in the observed exit / lengths; the n-1 sweeps before the last are       *)
(* taken with JumpOp (= iterated Sweep("notyet"), checked in MC_Solver; the end state *)
(* of a path depends only on n and o).  The run stays linear: one TLC state per line. *)
(*                                                                                    *)
(*   property:<clause>  a sentence of C02 / C11 is false on the observed values       *)
(*   drift:<clause>     the code did something no path of the spec predicts           *)
(* FOCUS (environment) selects whose property clauses are judged: "C02" or "C11".     *)
(* Solves harvested from the repository's test suite (harness/pytest_harvest.py) come *)
(* as the same events with sweeps = -1 (unobserved) and traced = FALSE.               *)
(* A Step for the period that has just raised is the caller's Retry of that period.   *)
(* Every Step says whether the tolerance of the run is >= 1 (tol_ge1) and how many    *)
(* sweeps were started (0 = the period was appended without any sweep).               *)
EXTENDS Solver, Json, IOUtils

Log == ndJsonDeserialize(IOEnv.TRACE_FILE)
Focus == IOEnv.FOCUS

VARIABLES l, verdict
tvars == << vars, l, verdict >>

Ok == [kind |-> "ok", clause |-> ""]
P(c) == [kind |-> "property", clause |-> c]
D(c) == [kind |-> "drift", clause |-> c]
Rank(v) == CASE v.kind = "ok" -> 0 [] v.kind = "drift" -> 1 [] v.kind = "property" -> 2
Worse(a, b) == IF Rank(b) > Rank(a) THEN b ELSE a     \* keeps the first of equal rank

Failures == {"ConvergenceError", "ValueError", "ArithmeticError", "OtherError"}
StatusOfExit(x) == CASE x = "converged" -> Completed
                     [] x = "ConvergenceError" -> "raised_convergence"
                     [] x = "ValueError" -> "raised_value"
                     [] OTHER -> "raised_other"

Stuck(s) == [s EXCEPT !.status = "idle", !.step = -1]

(* what the code does after the last sweep of a period *)
Settle(s3, cp, d) ==
    IF s3.status \in Raised THEN s3
    ELSE IF RaiseConvergenceEnabled(s3, cp) THEN RaiseOp(s3, "raised_convergence")
    ELSE IF RaiseValueEnabled(s3, cp) THEN RaiseOp(s3, "raised_value")
    ELSE IF ExitLoopEnabled(s3, cp)
         THEN LET s4 == ExitLoopOp(s3)
              IN IF RaiseValueEnabled(s4, cp) THEN RaiseOp(s4, "raised_value")
                 ELSE IF AsFound_DecorativeAfterAppend
                      THEN DecorateOp(AppendOp(s4), d)
                      ELSE LET s5 == DecorateOp(s4, d)
                           IN IF AppendEnabled(s5) THEN AppendOp(s5) ELSE s5
    ELSE Stuck(s3)            \* the loop would go on: not a complete period

PathEnd(s0, e, o, d) ==
    LET retry == RetryEnabled(s0, MaxRetries) /\ e.k = s0.step      \* SolveStep for the same period again
        s1 == IF retry THEN RetryOp([s0 EXCEPT !.zero = e.tol_zero], e.cap, e.tol_ge1)
              ELSE BeginStepOp([s0 EXCEPT !.big = e.tol_ge1, !.zero = e.tol_zero, !.cap = e.cap])
        \* logged sweeps = sweeps started (an uncaught exception ends the last one);
        \* sweeps = -1: not observed (solves harvested from the test suite) - the witness n = 1 is used,
        \* the end state of a path depends only on the last sweep's outcome;
        \* sweeps = 0: the period ended without any sweep
        pre == IF e.sweeps < 0 THEN 0 ELSE e.sweeps - 1
    IN IF ~retry /\ ~BeginStepEnabled(s0, e.horizon) THEN Stuck(s0)
       ELSE IF e.sweeps = 0 THEN (IF o = "converge" THEN Settle(s1, e.cap, d) ELSE Stuck(s0))
       ELSE IF ~JumpEnabled(s1, e.cap, pre) THEN Stuck(s0)
       ELSE LET s2 == JumpOp(s1, pre)
            IN IF ~SweepEnabled(s2, e.cap, o) THEN Stuck(s0)
               ELSE Settle(SweepOp(s2, o), e.cap, d)

MatchesEv(e, s) ==
    /\ s.step = e.k
    /\ s.status = StatusOfExit(e.exit)
    /\ (e.traced => ((s.errc = "nan") <=> e.errNaN))
    /\ s.len["sim"] = e.len_sim /\ s.len["lag"] = e.len_lag /\ s.len["deco"] = e.len_deco

Candidates(s0, e) ==
    { od \in SweepOutcomes \X DecoOutcomes : MatchesEv(e, PathEnd(s0, e, od[1], od[2])) }

Fallback(s0, e) ==
    [s0 EXCEPT !.step = e.k, !.status = StatusOfExit(e.exit),
               !.len = [c \in Classes |-> CASE c = "sim" -> e.len_sim [] c = "lag" -> e.len_lag
                                            [] c = "deco" -> e.len_deco [] OTHER -> s0.len[c]]]

NextState(s0, e) ==
    LET c == Candidates(s0, e)
    IN IF c = {} THEN Fallback(s0, e)
       ELSE LET od == CHOOSE x \in c : TRUE IN PathEnd(s0, e, od[1], od[2])

(* ---- property clauses: sentences of the statements, on observed values only ---- *)
JudgeC02(e) ==
    IF e.exit = "converged" /\ (e.errNaN \/ ~e.finite) THEN P("C02_DivergedNotSolved")
    ELSE IF ~e.returned \/ e.exit # "converged" THEN Ok
    ELSE IF ~e.finite THEN P("C02_Finite")
    ELSE IF ~e.resid_ok THEN P("C02_Residual")
    ELSE IF ~e.deco_exact THEN P("C02_DecorativeExact")
    ELSE IF ~e.lag_exact THEN P("C02_LaggedExact")
    ELSE IF ~e.exo_exact THEN P("C02_ExogenousExact")
    ELSE Ok

JudgeC11(e) ==
    IF e.sweeps > e.cap + 1 THEN P("C11_BoundedSweeps")
    ELSE IF ~e.prefix_intact THEN P("C11_PrefixIntact")
    \* the iteration diverged (NaN error / non-finite iterate): it did not meet the tolerance, yet no error
    ELSE IF e.exit = "converged" /\ (e.errNaN \/ ~e.finite) THEN P("C11_UnsolvableRaises")
    \* an equation is undefined (ZeroDivisionError / ValueError) at the values reported as solved:
    \* the arithmetic error persisted, yet no error was raised
    ELSE IF e.exit = "converged" /\ e.undef THEN P("C11_PersistentErrorRaises")
    \* the error measure of the last sweep (recomputed from the public step trace) does not meet the
    \* tolerance that was REQUESTED (solver parameter, else block line, else the default): no error was raised
    ELSE IF e.exit = "converged" /\ ~e.met_tol THEN P("C11_ToleranceHonoured")
    ELSE IF e.exit \in Failures /\ e.exit = "OtherError" THEN P("C11_FailureRaises")
    ELSE IF e.exit \in Failures /\ e.len_min # e.len_max THEN P("C11_EqualLengthsAfterFailure")
    ELSE Ok

JudgeStep(s0, e) ==
    LET p == IF Focus = "C02" THEN JudgeC02(e) ELSE JudgeC11(e)
        c == IF Candidates(s0, e) = {} THEN D("no_spec_path")
             ELSE IF e.exp_n >= 0 /\ e.sweeps # e.exp_n THEN D("sweep_count")
             ELSE Ok
    IN Worse(p, c)

JudgeFinish(s0, e) ==
    LET p == IF Focus = "C11" /\ e.contractive /\ ~e.returned THEN P("C11_ContractionSolved")
             ELSE Ok
        c == IF e.steps = 0 /\ ~e.returned THEN D("setup_failed")
             ELSE IF e.returned # FinishEnabled(s0, e.horizon) THEN D("finish")
             ELSE IF ~e.whole_equal THEN D("stepwise_vs_solveequation")
             ELSE IF e.returned /\ ~e.lens_ok THEN D("lengths")
             \* spec/SolverForms.tla predicts whether the reduction substitutes a copy variable away
             ELSE IF e.alias_pred # "na" /\ e.alias_pred # e.alias_obs THEN D("alias_substitution")
             \* spec/SolverFunctions.tla predicts that the registered function answers the call
             ELSE IF e.fn_pred # "na" /\ e.fn_pred # e.fn_obs THEN D("function_resolution")
             ELSE Ok
    IN Worse(p, c)

Reset(s0) == /\ step = s0.step /\ sweep = s0.sweep /\ errc = s0.errc /\ evalErr = s0.evalErr
             /\ iter = s0.iter /\ status = s0.status /\ len = s0.len /\ big = s0.big /\ zero = s0.zero /\ met = s0.met /\ cap = s0.cap /\ retries = s0.retries /\ hist = << >>
TraceInit == l = 1 /\ verdict = Ok /\ Reset(InitState(0, FALSE, 0))

TraceNext ==
    /\ l <= Len(Log)
    /\ l' = l + 1
    /\ LET e == Log[l] IN
       \/ /\ e.ev = "Step"
          /\ verdict' = Worse(verdict, JudgeStep(St, e))
          /\ Set(NextState(St, e)) /\ UNCHANGED hist
       \/ /\ e.ev = "Finish"
          /\ verdict' = Worse(verdict, JudgeFinish(St, e))
          /\ Set(IF FinishEnabled(St, e.horizon) THEN FinishOp(St) ELSE St) /\ UNCHANGED hist
       \/ /\ e.ev = "End"
          /\ PrintT(<< "VERDICT", e.tid, verdict.kind \o ":" \o verdict.clause >>)
          /\ verdict' = Ok
          /\ Set(InitState(0, FALSE, 0)) /\ UNCHANGED hist

TraceSpec == TraceInit /\ [][TraceNext]_tvars

AllConsumed == TLCGet("stats").diameter - 1 = Len(Log)
=============================================================================
