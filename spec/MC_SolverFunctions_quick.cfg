SPECIFICATION Spec
CONSTANTS
  NameClasses <- MC_Classes
  Places <- MC_Places
  GlobalsOverFunctions = FALSE
INVARIANT TypeOK
INVARIANT C02_RegisteredFunctionAnswers
CONSTRAINT Emit
CHECK_DEADLOCK FALSE
