SPECIFICATION TraceSpec
CONSTANTS
  Alphabet = {}
  MaxLen = 1000
POSTCONDITION AllConsumed
CHECK_DEADLOCK FALSE
