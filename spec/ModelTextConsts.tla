--------------------------- MODULE ModelTextConsts ---------------------------
(* Slots of the model the driver builds (harness/checks/c14.py, build_slots: the calls of  *)
(* gl_book.chapter3.SIM plus AddVariable calls that carry the descriptions), shared by the *)
(* bounded instance and the trace instance.  v / r are the full variable name and the      *)
(* right-hand side (white space removed) of the row in the model's text, in text order.    *)
MC_SlotSeq == <<
    [id |-> "d_endo", role |-> "endo",   v |-> "HH__AlphaIncome", r |-> "0.6000"],
    [id |-> "d_lag",  role |-> "lag",    v |-> "HH__LAG_F",       r |-> "HH__F"],
    [id |-> "d_deco", role |-> "deco",   v |-> "HH__TWICE",       r |-> "2*HH__AfterTax"],
    [id |-> "n_hh",   role |-> "endo",   v |-> "LAB__SUP_HH",     r |-> "LAB__SUP_LAB"],
    [id |-> "n_bus",  role |-> "endo",   v |-> "GOOD__SUP_BUS",   r |-> "GOOD__SUP_GOOD"],
    [id |-> "d_exo",  role |-> "exo",    v |-> "GOV__DEM_GOOD",   r |-> "[0.,]+[20.,]*105"],
    [id |-> "n_rest", role |-> "hidden", v |-> "",                r |-> ""] >>

(* the library's internal tag in every case variant, the marker line, the parameter names, '=' *)
(* and free text ending in a backslash / an operator / an ellipsis (the row that follows in the *)
(* text is a row of its own)                                                                   *)
MC_DescClasses == {"exoU", "exoM", "exo", "tagline", "pmax", "ptol", "eq", "endbs", "endop", "enddots"}
MC_NoForms == {}
=============================================================================
