SPECIFICATION Spec
CONSTANTS
  NVarsSet <- MC_N3
  Grid <- MC_GridThree
  MaxExcluded = 1
  AllowMalformed = FALSE
  AsFound_SignedRelativeTest = FALSE
  AsFound_NearZeroBandIgnoresDrift = FALSE
INVARIANT TypeOK
INVARIANT C15_AcceptedIsSteady
INVARIANT C15_OtherwiseRaises
PROPERTY C15_LeavesSolverUntouched
CONSTRAINT Emit
CHECK_DEADLOCK FALSE
