------------------------------- MODULE MC_Book -------------------------------
EXTENDS Book, Json

Half == R(1, 2)
Quarter == R(1, 4)
ThreeQ == R(3, 4)
G20 == << RInt(20), RInt(20), RInt(20), RInt(20) >>
GStep == << RInt(20), RInt(20), RInt(24), RInt(24) >>
RFlat == << R(1, 16), R(1, 16), R(1, 16), R(1, 16), R(1, 16) >>
RUp == << R(1, 16), R(1, 16), R(1, 8), R(1, 8), R(1, 8) >>

Base(m) == [model |-> m, a1 |-> Half, a2 |-> Half, theta |-> Quarter, l0 |-> Half, l1 |-> RInt(2), l2 |-> RZero,
            G |-> G20, r |-> RFlat, H0 |-> RZero, YD0 |-> RZero, B0 |-> RZero, partial |-> FALSE]

SimCases == { [Base(m) EXCEPT !.a1 = a1, !.a2 = a2, !.theta = th, !.G = g, !.H0 = h0, !.YD0 = yd0] :
                m \in {"SIM", "SIMEX1"}, a1 \in {Half, ThreeQ}, a2 \in {Quarter, Half}, th \in {Quarter, Half},
                g \in {G20, GStep}, h0 \in {RZero, RInt(16)}, yd0 \in {RZero, RInt(16)} }
PcCases == { [Base("PC") EXCEPT !.a1 = a1, !.theta = th, !.l1 = l1, !.l2 = l2, !.r = r, !.G = g, !.H0 = RInt(h0), !.B0 = RInt(b0)] :
                a1 \in {Half, ThreeQ}, th \in {Quarter, Half}, l1 \in {RInt(2), RInt(4)}, l2 \in {RZero, R(1, 8)},
                r \in {RFlat, RUp}, g \in {G20, GStep}, h0 \in {0, 64}, b0 \in {0, 32} }
\* corners of the admissible parameter space: a zero tax rate, zero interest, a zero portfolio slope, a zero propensity
\* to consume out of wealth, no government spending at all (with and without inherited money)
GZero == << RInt(0), RInt(0), RInt(0), RInt(0) >>
RNil == << RZero, RZero, RZero, RZero, RZero >>
Corners == { [Base(m) EXCEPT !.theta = RZero, !.H0 = h0] : m \in {"SIM", "SIMEX1", "PC"}, h0 \in {RZero, RInt(16)} }
      \cup { [Base(m) EXCEPT !.G = GZero, !.H0 = RInt(16)] : m \in {"SIM", "SIMEX1", "PC"} }
      \cup { [Base(m) EXCEPT !.a2 = RZero, !.H0 = RInt(16)] : m \in {"SIM", "SIMEX1", "PC"} }
      \cup { [Base("PC") EXCEPT !.r = RNil, !.H0 = RInt(64), !.B0 = RInt(32)],
             [Base("PC") EXCEPT !.l1 = RZero, !.r = RUp, !.H0 = RInt(64), !.B0 = RInt(32)],
             [Base("PC") EXCEPT !.l0 = RZero, !.l1 = RZero, !.H0 = RInt(64)],
             [Base("PC") EXCEPT !.theta = RZero, !.r = RUp, !.H0 = RInt(64), !.B0 = RInt(32)] }
\* model PC started from partial stocks: wealth and disposable income stated, the bill / money split left to the model
PcPartial == { [Base("PC") EXCEPT !.partial = TRUE, !.a1 = a1, !.theta = th, !.l1 = RInt(4), !.l2 = l2, !.r = r, !.H0 = RInt(64), !.YD0 = RInt(128)] :
                 a1 \in {Half, ThreeQ}, th \in {Quarter, Half}, l2 \in {RZero, R(1, 8)}, r \in {RFlat, RUp} }
\* SIM ignores YD0: drop the duplicates
MCCases == Corners \cup PcPartial \cup { x \in SimCases : x.model = "SIMEX1" \/ x.YD0 = RZero } \cup { x \in PcCases : x.B0[1] <= x.H0[1] }

\* thorough: a wider grid at the same horizon (horizon 4 overflows TLC's 32-bit integers on parts of the grid)
SimBig == { [Base(m) EXCEPT !.a1 = a1, !.a2 = a2, !.theta = th, !.G = g, !.H0 = h0, !.YD0 = yd0] :
                m \in {"SIM", "SIMEX1"}, a1 \in {Quarter, Half, ThreeQ}, a2 \in {Quarter, Half, ThreeQ}, th \in {RZero, Quarter, Half},
                g \in {G20, GStep, << RInt(0), RInt(12), RInt(12), RInt(30) >>}, h0 \in {RZero, RInt(16), RInt(80)}, yd0 \in {RZero, RInt(16)} }
PcBig == { [Base("PC") EXCEPT !.a1 = a1, !.a2 = a2, !.theta = th, !.l0 = l0, !.l1 = l1, !.l2 = l2, !.r = r, !.G = g, !.H0 = RInt(h0), !.B0 = RInt(b0)] :
                a1 \in {Half, ThreeQ}, a2 \in {Quarter, Half}, th \in {Quarter, Half}, l0 \in {Half, Quarter}, l1 \in {RInt(2), RInt(4)},
                l2 \in {RZero, R(1, 8)}, r \in {RFlat, RUp}, g \in {G20, GStep}, h0 \in {0, 64}, b0 \in {0, 32} }
MCBig == Corners \cup PcPartial \cup { x \in SimBig : x.model = "SIMEX1" \/ x.YD0 = RZero } \cup { x \in PcBig : x.B0[1] <= x.H0[1] }

Emit == (k = Horizon) => PrintT(<< "BEH", ToJson([c |-> c, hist |-> hist]) >>)
=============================================================================
