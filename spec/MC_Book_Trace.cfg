SPECIFICATION TraceSpec
CONSTANTS
  Cases <- OneCase
  Horizon = 0
POSTCONDITION AllConsumed
CHECK_DEADLOCK FALSE
