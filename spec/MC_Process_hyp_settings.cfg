SPECIFICATION Spec
CONSTANTS
  Models <- MC_Models0
  Solvers <- MC_Solvers1
  Blocks <- MC_BlocksQ
  Shape <- MC_Shape
  BlockInfo <- MC_BlockInfo
  LogNames <- MC_LogNames
  TraceSteps <- MC_Trace2
  FuncBodies <- MC_FuncBodies
  MaxHist = 5
  AsFound_VarListCached = FALSE
  AsFound_TraceBreaksFunctions = FALSE
  Hyp_IdResetPerModel = FALSE
  Hyp_SharedFunctions = FALSE
  Hyp_RhsCachedByName = FALSE
  Hyp_SteadyOneShot = FALSE
  Hyp_SettingsSurviveReparse = TRUE
  Hyp_TraceNeedsStepLog = FALSE
INVARIANT TypeOK
INVARIANT C17_HistoryIndependent
INVARIANT C17_ReparseClean
PROPERTY C17_ResolveIdempotent
CHECK_DEADLOCK FALSE
