SPECIFICATION Spec
CONSTANTS
  MaxLinks = 3
  Sources <- MC_QuickSources
  LeafPlaces <- MC_LastOnly
  StalePreload = FALSE
INVARIANT TypeOK
INVARIANT C02_DecorativeValuesCurrent
CONSTRAINT Emit
CHECK_DEADLOCK FALSE
