-------------------------- MODULE MC_SolverFunctions --------------------------
EXTENDS SolverFunctions, Json
MC_Classes == AllNameClasses
MC_Places == AllPlaces
Terminal == phase = "resolved"
Emit == Terminal => PrintT(<< "BEH", ToJson([use |-> use, resolved |-> resolved]) >>)
=============================================================================
