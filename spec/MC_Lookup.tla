----------------------------- MODULE MC_Lookup -----------------------------
(* Bounded instances of Lookup and behaviour emission.                      *)
EXTENDS Lookup, Json

CodeOrder == << "A", "B", "C" >>
(* codes are labels: new countries take the codes in the order A, B, C; a duplicate is tried in one spelling only *)
Ordered == /\ \A i \in DOMAIN countries : countries[i].code = CodeOrder[i]
           /\ (last.exc = "LogicError" /\ last.a \in {"NewCountry", "NewRegion"}) => (last.a = "NewCountry" /\ last.cur = "none")

(* sector instance: every behaviour starts with Country A (currency X) and Region B (default currency) *)
StartsTwoCountries ==
    /\ Len(hist) >= 1 => hist[1] = [a |-> "NewCountry", code |-> "A", cur |-> "X", cc |-> ""]
    /\ Len(hist) >= 2 => hist[2] = [a |-> "NewRegion", code |-> "B", cur |-> "none", cc |-> ""]
OrderedStart == Ordered /\ StartsTwoCountries

(* every maximal behaviour is printed once, as JSON, for the replay driver *)
Terminal == Len(hist) = MaxHist
Emit == (Terminal /\ Ordered) => PrintT(<< "BEH", ToJson([hist |-> hist]) >>)
EmitStart == (Terminal /\ OrderedStart) => PrintT(<< "BEH", ToJson([hist |-> hist]) >>)
=============================================================================
