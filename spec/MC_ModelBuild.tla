--------------------------- MODULE MC_ModelBuild ---------------------------
EXTENDS ModelBuild, ModelBlueprints, Json

OneBlueprint == {GIFT2}
Quick == QuickBlueprints
Thorough == AllBlueprints

ASSUME PrintT(<< "BPS", ToJson(Blueprints) >>)

Emit == (phase \in {"final", "error"}) =>
          PrintT(<< "BEH", ToJson([name |-> bp.name, decl |-> decl, phase |-> phase, err |-> st.err]) >>)
=============================================================================
