--------------------------- MODULE MC_ModelBuild ---------------------------
EXTENDS ModelBuild, ModelBlueprints, Json

OneBlueprint == {GIFT2}
\* the pinned behaviour for two possible dividend recipients: first declared wins (MC_ModelBuild_asfound2.cfg)
TwoCapsWellFormed == { [TWOCAPS EXCEPT !.wellformed = TRUE] }
Quick == QuickBlueprints
Thorough == AllBlueprints

ASSUME PrintT(<< "BPS", ToJson(Blueprints) >>)

Emit == (phase \in {"final", "error"}) =>
          PrintT(<< "BEH", ToJson([name |-> bp.name, decl |-> decl, phase |-> phase, err |-> st.err]) >>)
=============================================================================
