SPECIFICATION Spec
CONSTANTS
  MaxLinks = 3
  Sources <- MC_QuickSources
  LeafPlaces <- MC_LastOnly
  StalePreload = TRUE
INVARIANT TypeOK
INVARIANT C02_DecorativeValuesCurrent

CHECK_DEADLOCK FALSE
