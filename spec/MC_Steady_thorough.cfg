SPECIFICATION Spec
CONSTANTS
  NVarsSet <- MC_N2
  Grid <- MC_GridFull2
  MaxExcluded = 1
  AllowMalformed = FALSE
  AsFound_SignedRelativeTest = FALSE
  AsFound_NearZeroBandIgnoresDrift = FALSE
INVARIANT TypeOK
INVARIANT C15_AcceptedIsSteady
INVARIANT C15_OtherwiseRaises
PROPERTY C15_LeavesSolverUntouched
CONSTRAINT Emit
CHECK_DEADLOCK FALSE
