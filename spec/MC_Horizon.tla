----------------------------- MODULE MC_Horizon -----------------------------
(* Bounded instances of Horizon: blueprints x exogenous forms x initial condition on  *)
(* each class x horizons x where the horizon is set x equation reduction on/off.      *)
(* Every maximal behaviour is printed once for the replay driver.                     *)
EXTENDS Horizon, Json

V(n, c, r, a, s) == [name |-> n, cls |-> c, refs |-> r, add |-> a, src |-> s]

(* B1: constant, simultaneous, lag, simultaneous using a lag, decorative, decorative constant *)
MC_B1 == << V("x", "exo", << >>, 0, ""),
            V("c", "sim", << >>, 2, ""),
            V("y", "sim", << "x", "c" >>, 0, ""),
            V("L", "lag", << >>, 0, "y"),
            V("z", "sim", << "y", "L" >>, 1, ""),
            V("M", "lag", << >>, 0, "z"),
            V("d", "sim", << "z", "M" >>, 0, ""),
            V("q", "sim", << >>, 3, "") >>

(* B2: user-defined time axis that is referenced, lag of an exogenous variable *)
MC_B2 == << V("x", "exo", << >>, 0, ""),
            V("t", "sim", << "k" >>, 5, ""),
            V("Lx", "lag", << >>, 0, "x"),
            V("y", "sim", << "x", "Lx", "t" >>, 0, ""),
            V("Ly", "lag", << >>, 0, "y"),
            V("w", "sim", << "y", "Ly" >>, 0, "") >>

(* B3: default time axis referenced (so it is not decorative), lag of a lag, user time *)
(* absent, a decorative variable reading only lags                                     *)
MC_B3 == << V("x", "exo", << >>, 0, ""),
            V("y", "sim", << "x", "t" >>, 1, ""),
            V("L1", "lag", << >>, 0, "y"),
            V("L2", "lag", << >>, 0, "L1"),
            V("d", "sim", << "L1", "L2" >>, 0, ""),
            V("g", "sim", << "k", "k" >>, 1, "") >>

(* B4: the only lag reads an exogenous path (its source is never appended to) *)
MC_B4 == << V("x", "exo", << >>, 0, ""),
            V("Lx", "lag", << >>, 0, "x"),
            V("v", "sim", << "x", "Lx" >>, 1, "") >>

(* B5: user time axis and its lag under the reserved name t_minus_1 *)
MC_B5 == << V("x", "exo", << >>, 0, ""),
            V("t", "sim", << "k" >>, 5, ""),
            V("t_minus_1", "lag", << >>, 0, "t"),
            V("v", "sim", << "x", "t_minus_1" >>, 0, "") >>

(* Variable names as a dimension: the same blueprints under names that end in the digit 0, *)
(* hold a 0 inside, and come in pairs where one name is the other plus a trailing 0 (h1 next *)
(* to h10, L1 next to L10): "NAME(0) = v" must reach exactly the variable NAME.              *)
RenOne(m, n) == IF \E i \in 1..Len(m) : m[i][1] = n
                THEN m[CHOOSE i \in 1..Len(m) : m[i][1] = n][2] ELSE n
RECURSIVE RenSeq(_, _)
RenSeq(m, ns) == IF ns = << >> THEN << >> ELSE << RenOne(m, Head(ns)) >> \o RenSeq(m, Tail(ns))
RECURSIVE RenVars(_, _)
RenVars(m, vs) ==
    IF vs = << >> THEN << >>
    ELSE LET v == Head(vs)
         IN << V(RenOne(m, v.name), v.cls, RenSeq(m, v.refs), v.add,
                 IF v.src = "" THEN "" ELSE RenOne(m, v.src)) >> \o RenVars(m, Tail(vs))

Z1 == << << "c", "h1" >>, << "y", "h10" >>, << "L", "W0" >>, << "z", "x100" >>, << "d", "d00" >>, << "q", "a0b" >> >>
Z3 == << << "y", "y0" >>, << "L2", "L10" >>, << "d", "d0" >>, << "g", "g20" >> >>
Z4 == << << "Lx", "R0" >>, << "v", "v10" >> >>

(* names that differ from the parser's special left-hand names (t, t_minus_1, MaxTime) only in *)
(* letter case: T (taxes), T_MINUS_1, T_Minus_1, maxtime.  They are ordinary variables: the    *)
(* automatic t = k is still supplied (FoundT is about the exact names) and a constant called   *)
(* maxtime does not set the horizon.                                                           *)
C1 == << << "c", "T" >>, << "M", "T_MINUS_1" >>, << "q", "maxtime" >> >>
C3 == << << "d", "T" >>, << "L2", "T_Minus_1" >>, << "g", "MAXTIME" >> >>
C4 == << << "Lx", "t_Minus_1" >>, << "v", "T" >> >>

BP(b) == CASE b = "B1" -> MC_B1 [] b = "B2" -> MC_B2 [] b = "B3" -> MC_B3 [] b = "B4" -> MC_B4
           [] b = "B5" -> MC_B5
           [] b = "B1c" -> RenVars(C1, MC_B1) [] b = "B3c" -> RenVars(C3, MC_B3) [] b = "B4c" -> RenVars(C4, MC_B4)
           [] b = "B1z" -> RenVars(Z1, MC_B1) [] b = "B3z" -> RenVars(Z3, MC_B3) [] b = "B4z" -> RenVars(Z4, MC_B4)
ZBPs == {"B1z", "B3z", "B4z", "B1c", "B3c", "B4c"}       \* the renamed blueprints
BPs == {"B1", "B2", "B3", "B4", "B5"} \cup ZBPs

PathVals == << 3, 1, 4, 1, 5, 9, 2, 6, 5, 3 >>
Path(n) == SubSeq(PathVals, 1, n)
RECURSIVE Rep(_, _)
Rep(v, n) == IF n <= 0 THEN << >> ELSE << v >> \o Rep(v, n - 1)

(* extra = number of supplied values beyond horizon+1 (negative: too short) *)
ExoSpec(form, extra, h) ==
    CASE form \in {"list", "tuple"}       -> [form |-> form, vals |-> Path(h + 1 + extra), v |-> 0]
      [] form = "strexpr"                 -> [form |-> form, vals |-> Rep(2, h + 1 + extra), v |-> 2]
      [] form \in {"scalar", "intscalar"} -> [form |-> form, vals |-> << >>, v |-> 5]
      [] form = "undef"                   -> [form |-> form, vals |-> << >>, v |-> 0]

X(form, extra) == [form |-> form, extra |-> extra]
ExoQuick == { X("list", 0), X("list", 2), X("list", -1), X("tuple", 0), X("tuple", 2),
              X("strexpr", 0), X("strexpr", 2), X("strexpr", -1),
              X("scalar", 0), X("intscalar", 0), X("undef", 0) }
ExoThorough == { X(f, e) : f \in {"list", "tuple", "strexpr"}, e \in {-1, 0, 1, 2} }
               \cup { X("scalar", 0), X("intscalar", 0), X("undef", 0) }

NonExo(vs) == SelectSeq(vs, LAMBDA v : v.cls # "exo")
ICOne(vs, i) == << [name |-> NonExo(vs)[i].name, val |-> 10 + i] >>
ICAll(vs) == [i \in 1..Len(NonExo(vs)) |-> [name |-> NonExo(vs)[i].name, val |-> 10 + i]]
(* initial conditions aimed at the time axis when the block has no equation for it: on the *)
(* automatic t (alone, as int, together with all others) and on the name t_minus_1, for     *)
(* which no variable exists then                                                             *)
TimeNames == {"t", "t_minus_1"}
HasTimeIC(c) == \E i \in 1..Len(c.ics) : c.ics[i].name \in TimeNames \ Names(c.vars)
ICTime(vs) ==
    { [ics |-> << [name |-> n, val |-> 20] >>, icform |-> "float"] : n \in TimeNames \ Names(vs) }
    \cup { [ics |-> << [name |-> "t", val |-> 20] >>, icform |-> "int"] : n \in {"t"} \ Names(vs) }
    \cup { [ics |-> ICAll(vs) \o << [name |-> "t", val |-> 20], [name |-> "t_minus_1", val |-> 21] >>,
            icform |-> "float"] : n \in {"t"} \ Names(vs) }

(* the stated VALUE as a dimension: zero is a value like any other - it is not "no initial   *)
(* condition": a constant or any variable computable at time zero would otherwise start at    *)
(* its computed value                                                                         *)
Zeroed(ics) == [i \in 1..Len(ics) |-> [ics[i] EXCEPT !.val = 0]]
HasZeroIC(c) == \E i \in 1..Len(c.ics) : c.ics[i].val = 0
ICZero(vs) ==
    { [ics |-> Zeroed(ICOne(vs, i)), icform |-> "float"] : i \in 1..Len(NonExo(vs)) }
    \cup { [ics |-> Zeroed(ICAll(vs)), icform |-> f] : f \in {"float", "int"} }

(* the same initial condition stated twice with different values (the second overrides what *)
(* was installed first): on one variable, on all, and restated down to zero                  *)
Shifted(ics, d) == [i \in 1..Len(ics) |-> [ics[i] EXCEPT !.val = @ + d]]
HasRestatedIC(c) == \E i, j \in 1..Len(c.ics) : i < j /\ c.ics[i].name = c.ics[j].name
ICRestated(vs) ==
    { [ics |-> Shifted(ICOne(vs, i), 20) \o ICOne(vs, i), icform |-> "float"] : i \in 1..Len(NonExo(vs)) }
    \cup { [ics |-> Shifted(ICAll(vs), 20) \o ICAll(vs), icform |-> f] : f \in {"float", "int"} }
    \cup { [ics |-> ICAll(vs) \o Zeroed(ICAll(vs)), icform |-> "float"] }

ICChoices(vs) ==
    { [ics |-> << >>, icform |-> "float"] }
    \cup { [ics |-> ICOne(vs, i), icform |-> "float"] : i \in 1..Len(NonExo(vs)) }
    \cup { [ics |-> ICOne(vs, 1), icform |-> f] : f \in {"int", "undef"} }
    \cup { [ics |-> ICAll(vs), icform |-> f] : f \in {"float", "int", "undef"} }
    \cup ICTime(vs)
    \cup ICZero(vs)
    \cup ICRestated(vs)

Mk(b, hw, x, ic, r) ==
    [bp |-> b, vars |-> BP(b), exo |-> ExoSpec(x.form, x.extra, hw.h), ics |-> ic.ics,
     icform |-> ic.icform, horizon |-> hw.h, where |-> hw.w, reduce |-> r, late |-> hw.late,
     bmax |-> hw.bmax, solve |-> TRUE]

(* Initial states are enumerated by quantification (building the set of all configurations  *)
(* first and normalising it costs TLC far more than exploring it).                          *)
StartPlan(p) == /\ plan = p /\ idx = 1 /\ cfg = p[1] /\ phase = S0.phase /\ vlist = S0.vars /\ deco = S0.deco
                /\ horizon = S0.horizon /\ series = S0.series /\ tz = S0.tz /\ step = S0.step
                /\ err = S0.err /\ smax = S0.smax
StartWith(c) == StartPlan(<< c >>)
(* (horizon, placement, late value): the late value is written to the solver attribute after *)
(* parsing and is larger (h+1, h+2) or smaller (h-1) than the horizon of the block           *)
(* "both": the solver attribute (h, 0 included) and a MaxTime line with another value: larger *)
(* (h+2), smaller (h-1), and 0 against a positive solver value                               *)
HW(hs) == { [h |-> h, w |-> w, late |-> 0, bmax |-> 0] : h \in hs, w \in {"block", "solver"} }
          \cup { [h |-> 0, w |-> "default", late |-> 0, bmax |-> 0] }
          \cup { [h |-> h, w |-> w, late |-> h + d, bmax |-> 0] : h \in hs, w \in {"late_ctor", "late_parse"}, d \in {1, 2} }
          \cup { [h |-> h, w |-> w, late |-> h - 1, bmax |-> 0] : h \in hs \ {0}, w \in {"late_ctor", "late_parse"} }
          \cup { [h |-> h, w |-> "both", late |-> 0, bmax |-> h + 2] : h \in hs }
          \cup { [h |-> h, w |-> "both", late |-> 0, bmax |-> h - 1] : h \in hs \ {0} }
          \cup { [h |-> h, w |-> "both", late |-> 0, bmax |-> 0] : h \in hs \ {0, 1} }

(* quick: the rejected forms are not crossed with every initial-condition choice *)
KeepQuick(c) == /\ ExoRejected(c) => (c.ics = << >> \/ (Len(c.ics) > 1 /\ c.icform = "float"))
                /\ c.icform = "undef" => (c.exo.form = "list" /\ Len(c.exo.vals) = c.horizon + 1)
                /\ ~c.reduce => c.icform # "int"
                /\ IsLate(c) => (c.reduce /\ c.icform = "float" /\ (c.ics = << >> \/ Len(c.ics) > 1)
                                 /\ c.late # c.horizon + 1)
                /\ HasTimeIC(c) => (c.where \in {"block", "solver"} /\ ~ExoRejected(c)
                                    /\ (c.exo.form = "scalar" \/ (c.exo.form = "list" /\ Len(c.exo.vals) = c.horizon + 1)))
                /\ HasZeroIC(c) => (c.where = "block" /\ c.bp \notin ZBPs
                                    /\ (c.exo.form = "scalar" \/ (c.exo.form = "list" /\ Len(c.exo.vals) = c.horizon + 1)))
                /\ HasRestatedIC(c) => (c.where = "block" /\ c.bp \notin ZBPs
                                        /\ (c.exo.form = "scalar" \/ (c.exo.form = "list" /\ Len(c.exo.vals) = c.horizon + 1)))
                /\ c.bp \in ZBPs => (c.where = "block" /\ ~HasTimeIC(c)
                                     /\ (c.exo.form = "scalar" \/ (c.exo.form = "list" /\ Len(c.exo.vals) = c.horizon + 1)))
                /\ c.bp = "B5" => (c.where \in {"block", "solver"} /\ c.icform = "float"
                                   /\ c.exo.form \in {"list", "scalar", "strexpr"})
                /\ c.where = "both" => (c.reduce /\ c.icform = "float" /\ (c.ics = << >> \/ Len(c.ics) > 1))

----------------------------------------------------------------------------
(* Histories of two blocks on ONE solver object.                                             *)
(* First round: blueprint B4, a list of exactly the needed length, no initial conditions;    *)
(*   placed in the block (parsed by ParseString or by the constructor; solved or only        *)
(*   parsed) - nothing is written to the solver, so nothing may survive -, or written to the *)
(*   solver before the parse / late after it - then the value stays on the solver.           *)
(* Second round: any blueprint, horizon in its own block / absent / written to the solver    *)
(*   again (alone, or against a different MaxTime line) / "kept" from the first round        *)
(*   against a different MaxTime line.                                                       *)
NoIC == [ics |-> << >>, icform |-> "float"]
First(w, h, late, solve) ==
    [Mk("B4", [h |-> h, w |-> w, late |-> late, bmax |-> 0], X("list", 0), NoIC, TRUE) EXCEPT !.solve = solve]

(* first rounds that leave the solver attribute alone (h1 = the first block's own horizon) *)
FirstsUnset(h1s) == { First("block", h, 0, TRUE) : h \in h1s } \cup { First("block", h, 0, FALSE) : h \in h1s }
                    \cup { First("ctor", h, 0, TRUE) : h \in h1s }
(* first rounds after which the solver attribute holds v *)
FirstsSet(v) == { First("solver", v, 0, TRUE), First("late_parse", v + 1, v, TRUE) }

HW2(hs) == { [h |-> h, w |-> w, late |-> 0, bmax |-> 0] : h \in hs, w \in {"block", "solver"} }
           \cup { [h |-> 0, w |-> "default", late |-> 0, bmax |-> 0] }
           \cup { [h |-> h, w |-> "both", late |-> 0, bmax |-> h + 2] : h \in hs }
ExoPairs == { X("list", 0), X("list", 2), X("list", -1), X("strexpr", 0), X("scalar", 0) }
ICPairs(vs) == { NoIC, [ics |-> ICAll(vs), icform |-> "float"] }

PairInit(bps, hs, h1s) ==
    \E b \in bps, x \in ExoPairs :
        \E ic \in ICPairs(BP(b)) :
            \/ \E hw \in HW2(hs), h1 \in h1s :
                  \E c1 \in FirstsUnset({h1}) :
                      /\ h1 # hw.h
                      /\ StartPlan(<< c1, Mk(b, hw, x, ic, TRUE) >>)
            \/ \E h \in hs, d \in {2, -1} :
                  \E c1 \in FirstsSet(h) :
                      /\ h + d >= 0
                      /\ StartPlan(<< c1, Mk(b, [h |-> h, w |-> "kept", late |-> 0, bmax |-> h + d], x, ic, TRUE) >>)

InitQuick ==
    \/ \E b \in BPs, hw \in HW(0..3), x \in ExoQuick, r \in BOOLEAN :
          \E ic \in ICChoices(BP(b)) :
              LET c == Mk(b, hw, x, ic, r) IN KeepQuick(c) /\ StartWith(c)
    \/ PairInit({"B1", "B4"}, 0..3, {0, 2})

InitThorough ==
    \/ \E b \in BPs, hw \in HW(0..5), x \in ExoThorough, r \in BOOLEAN :
          \E ic \in ICChoices(BP(b)) :
              LET c == Mk(b, hw, x, ic, r)
                  keep == /\ (IsLate(c) => (c.reduce /\ c.late # c.horizon + 1)) /\ (c.where = "both" => c.reduce)
                          /\ ((HasTimeIC(c) \/ c.bp = "B5") => c.where \in {"block", "solver", "default"})
                          /\ (HasZeroIC(c) => (c.where \in {"block", "solver"} /\ c.bp \notin ZBPs
                                               /\ c.exo.form \in {"list", "scalar"}))
                          /\ (HasRestatedIC(c) => (c.where \in {"block", "solver"} /\ c.bp \notin ZBPs
                                                   /\ c.exo.form \in {"list", "scalar"}))
                          /\ (c.bp \in ZBPs => (c.where = "block" /\ ~HasTimeIC(c) /\ c.exo.form \in {"list", "scalar"}))
              IN keep /\ StartWith(c)
    \/ PairInit(BPs \ ZBPs, 0..5, {0, 3})

NoConfigs == {}

ASSUME \A b \in BPs : WellOrdered(AllVars([vars |-> BP(b)]))

Terminal == RoundOver /\ idx = Len(plan)
Emit == Terminal => PrintT(<< "BEH", ToJson([plan |-> plan, outcome |-> phase, err |-> err]) >>)
=============================================================================
