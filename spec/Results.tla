------------------------------ MODULE Results ------------------------------
(* Reading stored results: sfc_models/models.py (Model.GetTimeSeries,                 *)
(* TimeSeriesCutoff, TimeSeriesSupressTimeZero), equation_solver.py / utils.py        *)
(* (EquationSolver.GenerateCSVtext -> TimeSeriesHolder.GenerateCSVtext) and           *)
(* base_solver.py (BaseSolver.CreateCsvString).                                       *)
(*                                                                                    *)
(* One action per public call:                                                        *)
(*   Get(grp, name, c)  Model.GetTimeSeries(name, cutoff=c, group_of_series=grp)       *)
(*                      c = NoCut: no cutoff argument.  grp selects the holder:       *)
(*                      "main" EquationSolver.TimeSeries, "step" TimeSeriesStepTrace,  *)
(*                      "initial" TimeSeriesInitialSteadyState.  The name need not be *)
(*                      stored in that group (a typo, or a main-group name asked of   *)
(*                      the - usually empty - step / initial group): the retrieval    *)
(*                      then FAILS (KeyError), and a failed read is a read like any   *)
(*                      other: it leaves every group of the store as it was, later    *)
(*                      retrievals and renderings are unchanged, and asking again     *)
(*                      fails the same way.                                           *)
(*   GetNames(grp)      <holder of grp>.GetSeriesList(): the ordered list of series   *)
(*                      names that GenerateCSVtext takes its columns from.  A read;   *)
(*                      the list handed out belongs to the caller (modelled by the    *)
(*                      positions 1..n of its entries).                               *)
(*   MutateHeld(i, op)  the caller appends an element to / pops the last element from *)
(*                      / reverses in place (same length, other order) the i-th list  *)
(*                      it was given - a list of values from Get or a list of names   *)
(*                      from GetNames.  Whatever the caller does to it, later         *)
(*                      retrievals and renderings are those of the stored series.     *)
(*   Replace(old, new)  holder["new"] = holder.pop("old") on the main group: the      *)
(*                      stored results are edited, the NUMBER of series stays the     *)
(*                      same.  Not a read.  Renderings afterwards are renderings of   *)
(*                      the series stored then.                                       *)
(*   SetSuppress(b)     Model.TimeSeriesSupressTimeZero = b                           *)
(*   SetCutoff(c)       Model.TimeSeriesCutoff = c              c = NoCut: None       *)
(*   SetMaxTime(n)      Model.MaxTime = n.  The horizon of the *next* run; it says nothing     *)
(*                      about how long the stored series are (step group: one point    *)
(*                      per sweep; initial group: its own horizon; main group after    *)
(*                      MaxTime was changed), so no retrieval may depend on it: GetOp  *)
(*                      does not take it.                                              *)
(*   RenderTable(grp, fmt)  EquationSolver.GenerateCSVtext(fmt) for "main", otherwise *)
(*                      <holder of grp>.GenerateCSVtext(fmt)                          *)
(*   BaseCsv            BaseSolver.CreateCsvString()                                  *)
(*   Extend(name)       TimeSeriesHolder.AppendValue(name, 7): the solver (or a user) *)
(*                      adds a point to one series; not a read.  Together with an     *)
(*                      InitStore whose series differ in length this makes the store  *)
(*                      RAGGED, as it is after an interrupted run (exogenous series   *)
(*                      have MaxTime+1 points, the others stop at the failing step),  *)
(*                      between the steps of a stepwise run, or in a holder filled at *)
(*                      different rates.  Reads of a ragged store must be as pure as  *)
(*                      reads of a rectangular one: rendering tabulates the common    *)
(*                      prefix and leaves every stored list at its own length.        *)
(*                                                                                    *)
(* GetOp / MutateOp / RenderOp / BaseCsvOp are the single source of truth: the        *)
(* actions below and the trace specification Results_Trace both use them.             *)
(*                                                                                    *)
(* AsFound_* = TRUE models what the pinned code does:                                 *)
(*   AsFound_AliasWhenNoCutoff  without a cutoff the stored list itself is returned   *)
(*   AsFound_PopOnStore         without a cutoff the suppressed k=0 point is popped   *)
(*                              off the stored list                                   *)
(*   AsFound_BaseCsvDropsT      CreateCsvString removes 't' from the shared           *)
(*                              VariableList                                          *)
(* Property C16 needs all three FALSE.                                                *)
EXTENDS Integers, Sequences, TLC, FiniteSets

CONSTANTS
    InitStore,      \* group -> (series name -> sequence of small ints); groups "main", "step", "initial"
    Asks,           \* set of << group, name >>: what Get may ask for (the name may be absent from the group)
    RGroups,        \* groups RenderTable may render
    VarLists,       \* set of initial BaseSolver.VariableList values (sequences of names)
    BaseStore,      \* name -> sequence: the series attributes of the BaseSolver object
    CutArgs,        \* cutoff values used as argument / model default (NoCut = none)
    Fmts,           \* format strings for RenderTable
    MaxHist,        \* bound on the number of calls in a history
    ExtNames,       \* series that Extend may lengthen ({} = the store keeps its shape)
    MaxTimes,       \* values SetMaxTime may assign ({} = Model.MaxTime keeps its default)
    NGroups,        \* groups GetNames may list
    MutOps,         \* what MutateHeld may do: subset of {"append", "pop", "reverse"}
    Renames,        \* set of << old, new >> for Replace
    Reinserts,      \* names Reinsert may take out and put back
    AsFound_AliasWhenNoCutoff,
    AsFound_PopOnStore,
    AsFound_BaseCsvDropsT

NoCut == -1
Sentinel == 99
ExtVal == 7
DefaultMaxTime == 100       \* Model().MaxTime

----------------------------------------------------------------------------
(* what the property says a retrieval returns *)
Take(s, n) == SubSeq(s, 1, IF n < Len(s) THEN n ELSE Len(s))
Prefix(s, c) == IF c = NoCut THEN s ELSE Take(s, c + 1)
DropFirst(s) == IF s = << >> THEN << >> ELSE Tail(s)
GetExpect(s, c, sup) == IF sup THEN DropFirst(Prefix(s, c)) ELSE Prefix(s, c)

EffCut(carg, dflt) == IF carg = NoCut THEN dflt ELSE carg

(* Model.GetTimeSeries.  With a cutoff the slice is a new list in every variant.      *)
(* Without one: pinned code = "val = stored; if suppress: val.pop(0); return val".     *)
(*   alias    the list handed out is the stored list                                  *)
(*   onstore  the pop of the k=0 point is applied to the stored list                  *)
(* pop(0) on an empty list raises (ok = FALSE); unreachable while the store is intact. *)
(* A name that is not stored in the group raises KeyError whatever cutoff and          *)
(* suppression are (found = FALSE, ok = FALSE) and nothing at all is stored.           *)
GetOp(st, dflt, sup, grp, name, carg) ==
    LET c       == EffCut(carg, dflt)
        found   == name \in DOMAIN st[grp]
        s       == IF found THEN st[grp][name] ELSE << >>
        nocut   == c = NoCut
        onstore == nocut /\ sup /\ AsFound_PopOnStore
        alias   == nocut /\ AsFound_AliasWhenNoCutoff /\ (sup => AsFound_PopOnStore)
        ok      == found /\ ~(sup /\ Prefix(s, c) = << >>)
        vals    == IF ok THEN GetExpect(s, c, sup) ELSE << >>
    IN [ store |-> IF onstore /\ ok THEN [st EXCEPT ![grp][name] = Tail(s)] ELSE st,
         ok    |-> ok,
         found |-> found,
         err   |-> IF ok THEN "" ELSE IF found THEN "IndexError" ELSE "KeyError",
         c     |-> c,
         pre   |-> s,
         vals  |-> vals,
         entry |-> [kind |-> "vals", grp |-> grp, name |-> name, alias |-> alias /\ ok,
                    vals |-> IF alias /\ ok THEN << >> ELSE vals] ]

(* TimeSeriesHolder.GetSeriesList: a new list every time; its n entries are modelled by 1..n *)
NamesEntry(st, grp) ==
    [kind |-> "names", grp |-> grp, name |-> "", alias |-> FALSE,
     vals |-> [i \in 1..Cardinality(DOMAIN st[grp]) |-> i]]

(* holder[new] = holder.pop(old) *)
ReplaceOp(h, old, new) ==
    [n \in (DOMAIN h \ {old}) \cup {new} |-> IF n = new THEN h[old] ELSE h[n]]

(* value of a list in the caller's hands: an alias *is* the stored list *)
HeldVal(st, h) == IF h.alias THEN st[h.grp][h.name] ELSE h.vals

MutateOp(st, hd, i, op) ==
    LET h   == hd[i]
        cur == HeldVal(st, h)
        new == CASE op = "append"  -> Append(cur, Sentinel)
                 [] op = "pop"     -> SubSeq(cur, 1, Len(cur) - 1)
                 [] op = "reverse" -> [k \in 1..Len(cur) |-> cur[Len(cur) + 1 - k]]
    IN [ store |-> IF h.alias THEN [st EXCEPT ![h.grp][h.name] = new] ELSE st,
         held  |-> IF h.alias THEN hd ELSE [hd EXCEPT ![i].vals = new] ]

(* TimeSeriesHolder.AppendValue on the main group *)
ExtendOp(st, name) == [st EXCEPT !["main"][name] = Append(@, ExtVal)]

(* TimeSeriesHolder.GenerateCSVtext: one column per series, min(length) rows; the      *)
(* store may be ragged and stays exactly as it is.                                    *)
(* The text is modelled by its content; column order is C19's subject.                *)
MinLen(st) == LET lens == { Len(st[n]) : n \in DOMAIN st }
              IN CHOOSE m \in lens : \A k \in lens : m <= k
RenderOp(st, fmt) ==          \* st = the holder of one group; an empty holder renders as ''
    [ fmt |-> fmt, hdr |-> << >>,
      cols |-> IF DOMAIN st = {} THEN << >> ELSE [n \in DOMAIN st |-> SubSeq(st[n], 1, MinLen(st))] ]

(* BaseSolver.CreateCsvString: 't' first, then the other names in list order; rows    *)
(* are counted on the first column.                                                   *)
HasT(vl) == \E i \in 1..Len(vl) : vl[i] = "t"
NoT(vl) == SelectSeq(vl, LAMBDA x : x # "t")
BaseCsvOp(vl) ==
    LET hdr == IF HasT(vl) THEN << "t" >> \o NoT(vl) ELSE vl
        n   == Len(BaseStore[hdr[1]])
    IN [ varlist |-> IF HasT(vl) /\ AsFound_BaseCsvDropsT THEN NoT(vl) ELSE vl,
         text    |-> [ fmt |-> "", hdr |-> hdr,
                       cols |-> [x \in { hdr[i] : i \in 1..Len(hdr) } |-> SubSeq(BaseStore[x], 1, n)] ] ]

----------------------------------------------------------------------------
VARIABLES store,     \* group -> holder: EquationSolver.TimeSeries / .TimeSeriesStepTrace / .TimeSeriesInitialSteadyState
          held,      \* lists handed to the caller: [kind, grp, name, alias, vals]
          cutoff,    \* Model.TimeSeriesCutoff (NoCut = None)
          suppress,  \* Model.TimeSeriesSupressTimeZero
          varlist,   \* BaseSolver.VariableList
          last,      \* what the last call returned
          gets,      \* retrievals so far: [key, src, out]
          texts,     \* renderings so far: [key, src, out]
          maxtime,   \* Model.MaxTime
          hist,      \* the calls made (history, for emission)
          vl0        \* the VariableList the BaseSolver was constructed with (history)

vars == << store, held, cutoff, suppress, varlist, last, gets, texts, maxtime, hist, vl0 >>

NoLast == [ev |-> "", ok |-> TRUE, found |-> TRUE, c |-> NoCut, sup |-> FALSE, pre |-> << >>, vals |-> << >>]
Call(ev, grp, name, c, i, op, b, fmt) ==
    [ev |-> ev, grp |-> grp, name |-> name, c |-> c, i |-> i, op |-> op, b |-> b, fmt |-> fmt]

(* (re)start with a given store and variable list; used by Init and by the trace spec *)
Reset(st, vl, mt) ==
    /\ store' = st /\ held' = << >> /\ cutoff' = NoCut /\ suppress' = FALSE /\ maxtime' = mt
    /\ varlist' = vl /\ last' = NoLast /\ gets' = {} /\ texts' = {} /\ hist' = << >>
    /\ vl0' = vl

Init == /\ store = InitStore /\ held = << >> /\ cutoff = NoCut /\ suppress = FALSE /\ maxtime = DefaultMaxTime
        /\ varlist \in VarLists /\ last = NoLast /\ gets = {} /\ texts = {} /\ hist = << >>
        /\ vl0 = varlist

Get(grp, name, carg) ==
    LET r == GetOp(store, cutoff, suppress, grp, name, carg) IN
    /\ Len(hist) < MaxHist
    /\ store' = r.store
    /\ held' = Append(held, r.entry)
    /\ last' = [ev |-> "Get", ok |-> r.ok, found |-> r.found, c |-> r.c, sup |-> suppress, pre |-> r.pre,
                vals |-> r.vals]
    /\ gets' = gets \cup { [key |-> [grp |-> grp, name |-> name, c |-> r.c, sup |-> suppress], src |-> store,
                            out |-> [ok |-> r.ok, err |-> r.err, vals |-> r.vals]] }
    /\ hist' = Append(hist, Call("Get", grp, name, carg, 0, "", FALSE, ""))
    /\ UNCHANGED << cutoff, suppress, varlist, texts, maxtime, vl0 >>

MutateHeld(i, op) ==
    LET r == MutateOp(store, held, i, op) IN
    /\ Len(hist) < MaxHist
    /\ i \in 1..Len(held)
    /\ store' = r.store
    /\ held' = r.held
    /\ last' = [NoLast EXCEPT !.ev = "MutateHeld"]
    /\ hist' = Append(hist, Call("MutateHeld", "", "", NoCut, i, op, FALSE, ""))
    /\ UNCHANGED << cutoff, suppress, varlist, gets, texts, maxtime, vl0 >>

GetNames(grp) ==
    /\ Len(hist) < MaxHist
    /\ held' = Append(held, NamesEntry(store, grp))
    /\ last' = [NoLast EXCEPT !.ev = "GetNames"]
    /\ hist' = Append(hist, Call("GetNames", grp, "", NoCut, 0, "", FALSE, ""))
    /\ UNCHANGED << store, cutoff, suppress, varlist, gets, texts, maxtime, vl0 >>

Replace(old, new) ==
    /\ Len(hist) < MaxHist
    /\ old \in DOMAIN store["main"] /\ new \notin DOMAIN store["main"]
    /\ store' = [store EXCEPT !["main"] = ReplaceOp(@, old, new)]
    /\ last' = [NoLast EXCEPT !.ev = "Replace"]
    /\ hist' = Append(hist, Call("Replace", "main", old, NoCut, 0, new, FALSE, ""))
    /\ UNCHANGED << held, cutoff, suppress, varlist, gets, texts, maxtime, vl0 >>

(* holder[name] = holder.pop(name) on the main group: a series is taken out and put back unchanged.  What *)
(* is stored is exactly what was stored (the store is a mapping from names to series; how and in which    *)
(* order it was filled is not part of it), so every retrieval and every rendering afterwards is the same. *)
Reinsert(name) ==
    /\ Len(hist) < MaxHist
    /\ name \in DOMAIN store["main"]
    /\ last' = [NoLast EXCEPT !.ev = "Reinsert"]
    /\ hist' = Append(hist, Call("Reinsert", "main", name, NoCut, 0, "", FALSE, ""))
    /\ UNCHANGED << store, held, cutoff, suppress, varlist, gets, texts, maxtime, vl0 >>

SetSuppress(b) ==
    /\ Len(hist) < MaxHist
    /\ suppress' = b
    /\ last' = [NoLast EXCEPT !.ev = "SetSuppress"]
    /\ hist' = Append(hist, Call("SetSuppress", "", "", NoCut, 0, "", b, ""))
    /\ UNCHANGED << store, held, cutoff, varlist, gets, texts, maxtime, vl0 >>

SetCutoff(c) ==
    /\ Len(hist) < MaxHist
    /\ cutoff' = c
    /\ last' = [NoLast EXCEPT !.ev = "SetCutoff"]
    /\ hist' = Append(hist, Call("SetCutoff", "", "", c, 0, "", FALSE, ""))
    /\ UNCHANGED << store, held, suppress, varlist, gets, texts, maxtime, vl0 >>

RenderTable(grp, fmt) ==
    /\ Len(hist) < MaxHist
    /\ texts' = texts \cup { [key |-> grp \o ":" \o fmt, src |-> store[grp], out |-> RenderOp(store[grp], fmt)] }
    /\ last' = [NoLast EXCEPT !.ev = "RenderTable"]
    /\ hist' = Append(hist, Call("RenderTable", grp, "", NoCut, 0, "", FALSE, fmt))
    /\ UNCHANGED << store, held, cutoff, suppress, varlist, gets, maxtime, vl0 >>

BaseCsv ==
    LET r == BaseCsvOp(varlist) IN
    /\ Len(hist) < MaxHist
    /\ varlist' = r.varlist
    /\ texts' = texts \cup { [key |-> "base", src |-> BaseStore, out |-> r.text] }
    /\ last' = [NoLast EXCEPT !.ev = "BaseCsv"]
    /\ hist' = Append(hist, Call("BaseCsv", "", "", NoCut, 0, "", FALSE, ""))
    /\ UNCHANGED << store, held, cutoff, suppress, gets, maxtime, vl0 >>

SetMaxTime(n) ==
    /\ Len(hist) < MaxHist
    /\ maxtime' = n
    /\ last' = [NoLast EXCEPT !.ev = "SetMaxTime"]
    /\ hist' = Append(hist, Call("SetMaxTime", "", "", n, 0, "", FALSE, ""))
    /\ UNCHANGED << store, held, cutoff, suppress, varlist, gets, texts, vl0 >>

Extend(name) ==
    /\ Len(hist) < MaxHist
    /\ store' = ExtendOp(store, name)
    /\ last' = [NoLast EXCEPT !.ev = "Extend"]
    /\ hist' = Append(hist, Call("Extend", "main", name, NoCut, 0, "", FALSE, ""))
    /\ UNCHANGED << held, cutoff, suppress, varlist, gets, texts, maxtime, vl0 >>

ReadStep ==
    \/ \E a \in Asks, c \in CutArgs : Get(a[1], a[2], c)
    \/ \E g \in NGroups : GetNames(g)
    \/ \E i \in 1..Len(held), op \in MutOps :
            \* histories only pop a list that has something to pop; the action itself is total (pop of an
            \* empty list = the caller does nothing), so a history can be replayed on a world whose series
            \* are shorter than the instance's
            /\ op = "pop" => Len(HeldVal(store, held[i])) > 0
            /\ MutateHeld(i, op)
    \/ \E g \in RGroups, f \in Fmts : RenderTable(g, f)
    \/ BaseCsv

Next == \/ ReadStep
        \/ \E b \in BOOLEAN : b # suppress /\ SetSuppress(b)
        \/ \E c \in CutArgs : c # cutoff /\ SetCutoff(c)
        \/ \E n \in ExtNames : Extend(n)
        \/ \E n \in MaxTimes : n # maxtime /\ SetMaxTime(n)
        \/ \E r \in Renames : Replace(r[1], r[2])
        \/ \E n \in Reinserts : Reinsert(n)

Spec == Init /\ [][Next]_vars

----------------------------------------------------------------------------
(* C16 *)
(* retrieving, rendering and mutating a returned list leave the stored results alone *)
C16_ReadsArePure == [][ReadStep => UNCHANGED << store, varlist >>]_vars

(* first cutoff+1 points (all without a cutoff), without the k=0 point under suppression; *)
(* a series that is not stored is not retrieved                                          *)
C16_GetValue ==
    last.ev = "Get" => IF last.found THEN /\ last.ok
                                          /\ last.vals = GetExpect(last.pre, last.c, last.sup)
                       ELSE ~last.ok

(* same stored series => same retrieval (the same list, or the same failure) / same text *)
C16_Repeatable ==
    /\ \A x, y \in gets  : (x.key = y.key /\ x.src = y.src) => x.out = y.out
    /\ \A x, y \in texts : (x.key = y.key /\ x.src = y.src) => x.out = y.out

TypeOK == /\ Len(hist) <= MaxHist
          /\ suppress \in BOOLEAN
          /\ cutoff \in CutArgs \cup {NoCut}
          /\ Len(held) <= Len(hist)
=============================================================================
