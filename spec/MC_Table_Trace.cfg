SPECIFICATION TraceSpec
CONSTANTS
  Names <- MC_NoNames
  MaxLen = 0
  MaxNames = 1000000
  Horizons <- MC_NoHorizons
  FormatSeq <- MC_NoFormats
  MaxOps = 0
POSTCONDITION AllConsumed
CHECK_DEADLOCK FALSE
