SPECIFICATION Spec
CONSTANTS
  Blueprints <- Thorough
  AsFound_LabourDemandLate = FALSE
  AsFound_LiteralSupGood = FALSE
  AsFound_DividendsPerPayer = FALSE
  AsFound_FirstRecipient = FALSE
INVARIANT TypeOK
INVARIANT C01_SFC
INVARIANT C04_MarketsClear
INVARIANT C04_DemandersBooked
INVARIANT C05_Closed
INVARIANT C07_NumeraireValueZero
INVARIANT C07_RefusedWithoutExternal
INVARIANT C08_OrderIndependent
INVARIANT C18_ZoneIsolation
INVARIANT PipelineIsRunAll
INVARIANT C11_IllFormedRejected
INVARIANT C11_WellFormedBuilds
CONSTRAINT Emit
CHECK_DEADLOCK FALSE
