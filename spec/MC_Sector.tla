----------------------------- MODULE MC_Sector -----------------------------
(* Bounded instances of Sector: action alphabets, and emission of every      *)
(* maximal behaviour (as the list of the keys of its actions; the alphabet    *)
(* itself, with full action records, is printed once at the initial state).   *)
EXTENDS Sector, Json

CF(s1, br, s2, body, inc) ==
    [op |-> "CF", s1 |-> s1, br |-> br, s2 |-> s2, body |-> body, he |-> FALSE, eqn |-> "",
     inc |-> inc, who |-> "S"]
CFE(s1, br, s2, name, q, inc) ==
    [op |-> "CF", s1 |-> s1, br |-> br, s2 |-> s2, body |-> name, he |-> TRUE, eqn |-> q,
     inc |-> inc, who |-> "S"]
AV(name, q) == [op |-> "AV", s1 |-> "", br |-> FALSE, s2 |-> "", body |-> name, he |-> TRUE, eqn |-> q,
                inc |-> TRUE, who |-> "S"]
SR(name, q) == [op |-> "SR", s1 |-> "", br |-> FALSE, s2 |-> "", body |-> name, he |-> TRUE, eqn |-> q,
                inc |-> TRUE, who |-> "S"]
AT(s1, br, s2, name, tb) ==        \* AddTermToEquation(name, <s1 ( s2 tb )>)
    [op |-> "AT", s1 |-> s1, br |-> br, s2 |-> s2, body |-> name, he |-> TRUE, eqn |-> tb,
     inc |-> TRUE, who |-> "S"]
AQ(name) == [op |-> "AQ", s1 |-> "", br |-> FALSE, s2 |-> "", body |-> name, he |-> FALSE, eqn |-> "",
             inc |-> TRUE, who |-> "S"]
EX(name, who) == [op |-> "EX", s1 |-> "", br |-> FALSE, s2 |-> "", body |-> name, he |-> FALSE, eqn |-> "",
                  inc |-> TRUE, who |-> who]

(* quick: 26 actions, histories of length 3 *)
MC_AlphaQuick == {
    CF("",  FALSE, "",  "A",   TRUE),       \* A
    CF("-", FALSE, "",  "A",   TRUE),       \* -A
    CF("-", TRUE,  "-", "A",   FALSE),      \* -(-A)       not income
    CF("+", FALSE, "",  "B",   TRUE),       \* +B
    CF("+", FALSE, "",  "OTHER__A", TRUE),  \* +OTHER__A   another sector's A: not the local A
    CF("-", FALSE, "",  "_7__A",    TRUE),  \* -_7__A      the same in alias form
    CF("+", FALSE, "",  "A*B", TRUE),       \* +A*B
    CF("-", FALSE, "",  "2*A", TRUE),       \* -2*A        numeric factor: the sign belongs to the whole term
    CF("-", TRUE,  "",  "A/2", TRUE),       \* -(A/2)
    CF("+", FALSE, "",  "A/B", TRUE),       \* +A/B
    CF("-", TRUE,  "",  "B/A", TRUE),       \* -(B/A)      not the same flow as A/B
    CFE("+", FALSE, "",  "A", D1, TRUE),
    CFE("-", FALSE, "",  "A", D2, TRUE),
    CFE("",  FALSE, "",  "A", "", FALSE),
    CFE("-", TRUE,  "-", "B", D1, TRUE),
    EX("A", "S"), EX("A*B", "S"), EX("A", "T"),
    AV("A", ""), AV("A", "0.0"), AV("A", D3), AV("B", D4),        \* D3, D4, D5 begin like a zero literal
    SR("A", D5), SR("A", "0.0"),
    AT("+", FALSE, "", "A", "Z"), AT("-", FALSE, "", "A", "Z") }   \* a definition built (and cancelled) term by term

(* the five sign / bracket spellings of the statement, and the bare name *)
Form(s1, br, s2) == [s1 |-> s1, br |-> br, s2 |-> s2]
FPlain == Form("", FALSE, "")     FPlus == Form("+", FALSE, "")     FMinus == Form("-", FALSE, "")
FInner == Form("", TRUE, "-")     FOuter == Form("-", TRUE, "")     FBoth  == Form("-", TRUE, "-")
Forms6 == {FPlain, FPlus, FMinus, FInner, FOuter, FBoth}
Forms4 == {FPlus, FMinus, FInner, FBoth}

(* thorough, length 3: 60 actions *)
MC_AlphaMid ==
    { CF(f.s1, f.br, f.s2, "A", i) : f \in {FPlus, FMinus}, i \in BOOLEAN }
    \cup { CF("", TRUE, "-", "A", TRUE), CF("-", TRUE, "-", "A", FALSE) }
    \cup { CF(f.s1, f.br, f.s2, "2*A", TRUE) : f \in Forms4 } \cup { AT(f.s1, f.br, f.s2, "A", "Z") : f \in {FPlus, FMinus, FBoth} }
    \cup { AT("+", FALSE, "", "A", "W"), AQ("A") }
    \cup { CF("-", FALSE, "", b, TRUE) : b \in {"A*2", "A/2", "2/A"} }
    \cup { CF(f.s1, f.br, f.s2, "A/B", i) : f \in {FPlus, FMinus}, i \in BOOLEAN }
    \cup { CF("-", TRUE, "-", "A/B", FALSE) }
    \cup { CF(f.s1, f.br, f.s2, b, TRUE) : f \in {FPlus, FMinus}, b \in {"B", "A*B", "B/A"} }
    \cup { CF(f.s1, f.br, f.s2, b, TRUE) : f \in {FPlus, FMinus}, b \in Decorated }
    \cup { CF("-", TRUE, "-", "OTHER__A", FALSE) }
    \cup { CFE(f.s1, f.br, f.s2, "A", q, TRUE) : f \in {FPlus, FMinus}, q \in {D1, D2} }
    \cup { CFE("+", FALSE, "", "A", D1, FALSE), CFE("+", FALSE, "", "A", D3, TRUE) }
    \cup { CFE("", FALSE, "", "A", "", FALSE), CFE("-", TRUE, "-", "B", "", TRUE) }
    \cup { AV("A", q) : q \in {"", "0.0", D3, D5, "0"} } \cup { AV("B", D4) }
    \cup { SR("A", D1), SR("A", D3), SR("A", "0.0"), SR("A", "") }
    \cup { EX("A", "S"), EX("A*B", "S"), EX("A/B", "S"), EX("B/A", "S"), EX("A", "T"), EX("A/B", "T"), EX("A", "O"), EX("OTHER__A", "S") }

(* thorough, length 4: 20 actions *)
MC_AlphaLen4 == {
    CF("",  FALSE, "",  "A",   TRUE),  CF("-", FALSE, "",  "A",   TRUE),  CF("-", TRUE,  "-", "A",   FALSE),
    CF("+", FALSE, "",  "OTHER__A", TRUE),  CF("+", FALSE, "",  "A*B", TRUE),  CF("-", FALSE, "",  "2*A", TRUE),
    CF("+", FALSE, "",  "A/B", TRUE),  CF("-", TRUE,  "",  "B/A", TRUE),      CFE("+", FALSE, "", "A", D1, TRUE), CFE("-", FALSE, "", "A", D2, TRUE), CFE("", FALSE, "", "A", "", FALSE),
    EX("A", "S"), EX("A", "T"),
    AV("A", ""), AV("A", D3), SR("A", D1), SR("A", "0.0"),
    AQ("A"), AT("+", FALSE, "", "A", "Z"), AT("-", FALSE, "", "A", "Z") }

(* thorough, length 2: every action of the instance (all six spellings, all twelve bodies,  *)
(* all nine right-hand-side texts for AddVariable / SetRHS)                              *)
MC_AlphaFull ==
    { CF(f.s1, f.br, f.s2, b, i) : f \in Forms6, b \in Bodies, i \in BOOLEAN }
    \cup { CFE(f.s1, f.br, f.s2, n, q, i) : f \in Forms6, n \in FlowNames, q \in {"", D1, D2}, i \in BOOLEAN }
    \cup { CFE(f.s1, f.br, f.s2, n, D3, i) : f \in {FPlus, FMinus}, n \in FlowNames, i \in BOOLEAN }
    \cup { AV(n, q) : n \in FlowNames, q \in Eqns }
    \cup { SR(n, q) : n \in FlowNames, q \in Eqns }
    \cup { EX(b, w) : b \in Bodies, w \in Sectors }
    \cup { AT(f.s1, f.br, f.s2, n, tb) : f \in {FPlus, FMinus, FBoth}, n \in FlowNames, tb \in TBodies }
    \cup { AQ(n) : n \in FlowNames }

(* a short string that identifies an action within any alphabet *)
Key(a) == a.op \o ":" \o (IF a.op = "AT" THEN a.body \o "~" ELSE "") \o TermText(a) \o ":" \o (IF a.he THEN a.eqn ELSE "none") \o ":"
          \o (IF a.inc THEN "i" ELSE "n") \o a.who

Terminal == Len(log) = MaxLen
Emit == /\ log = << >> => PrintT(<< "ALPHA", ToJson({ [key |-> Key(a), a |-> a] : a \in Alphabet }) >>)
        /\ Terminal => PrintT(<< "BEH", ToJson([i \in 1..Len(log) |-> Key(log[i].a)]) >>)
=============================================================================
