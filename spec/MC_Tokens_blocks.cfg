SPECIFICATION Spec
CONSTANTS
  Names <- MC_NamesLines
  Numbers <- MC_NumbersNone
  Strings <- MC_StringsNone
  BinOps <- MC_OpsBlocks
  Maps <- MC_MapsLines
  OnePairs <- MC_PairsDeep
  Routes = {}
  MaxUnits = 6
  MinUnits = 0
  MaxDepth = 1
  MaxActs = 1
  MaxNL = 0
  MaxLines = 2
  Signs = {}
  AllowCall = FALSE
  AllowList = FALSE
  AllowGroup = FALSE
  AllowLag = FALSE
INVARIANT TypeOK
INVARIANT C13_OnlyWholeNames
INVARIANT C13_Simultaneous
INVARIANT C13_ValuePreserved
INVARIANT C13_ListIsNamesInOrder
CONSTRAINT Emit
CHECK_DEADLOCK FALSE
