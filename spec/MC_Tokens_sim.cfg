SPECIFICATION Spec
CONSTANTS
  Names <- MC_NamesSim
  Numbers <- MC_NumbersWide
  Strings <- MC_Strings2
  BinOps <- MC_OpsWide
  Maps <- MC_MapsFew
  OnePairs <- MC_PairsFew
  Routes = {"equation", "block", "shared_block", "shared_each", "cancel_first", "cancel_mid"}
  MaxUnits = 8
  MinUnits = 5
  MaxDepth = 2
  MaxActs = 1
  MaxNL = 2
  MaxLines = 2
  Signs = {"-", "+"}
  AllowCall = TRUE
  AllowList = TRUE
  AllowGroup = TRUE
  AllowLag = TRUE
INVARIANT TypeOK
INVARIANT C13_OnlyWholeNames
INVARIANT C13_Simultaneous
INVARIANT C13_ValuePreserved
INVARIANT C13_ListIsNamesInOrder
CONSTRAINT Emit
CHECK_DEADLOCK FALSE
