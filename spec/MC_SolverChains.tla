--------------------------- MODULE MC_SolverChains ---------------------------
EXTENDS SolverChains, Json
MC_QuickSources == {"sim", "exo"}
MC_AllSources == AllSources
MC_LastOnly == {FALSE}
MC_BothPlaces == BOOLEAN
(* the declaration is what the replay driver realises; the list order is the parser's business *)
Terminal == phase = "declared"
Emit == Terminal => PrintT(<< "BEH", ToJson(decl) >>)
=============================================================================
