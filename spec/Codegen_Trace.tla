--------------------------- MODULE Codegen_Trace ---------------------------
(* Trace validation for Codegen: what the real IterativeMachineGenerator wrote for a block, *)
(* and what the written module did when imported and run, recorded by                        *)
(* harness/checks/c20.py, is folded through the actions of Codegen.  One total verdict per   *)
(* trace id.                                                                                 *)
(*   property:<clause>  a sentence of C20 is false on the observed behaviour                 *)
(*       C20_ImportAndRun            generation, import, construction or a step raised       *)
(*       C20_StepAppendsAll          an endogenous series has no value for a period k >= 1   *)
(*       C20_StepSatisfiesEquations  the values of a period do not satisfy the equations     *)
(*       C20_AgreesWithInProcess     the series differ from the in-process solver's          *)
(*       C20_HeaderTimeFirst         the table header                                        *)
(*   all of them on every module the generator object writes (a Regenerate event is main()   *)
(*   called again on the same object; its module is imported, run and judged the same way).   *)
(*   drift:<clause>     the code did something the spec action does not predict              *)
(* Numeric predicates (resid_ok, agree_ok) are computed by the driver with exact rationals;  *)
(* everything about names, orders, lengths and WHEN a predicate must hold is decided here.   *)
EXTENDS Codegen, Json, IOUtils

Log == ndJsonDeserialize(IOEnv.TRACE_FILE)

VARIABLES l, verdict
tvars == << vars, l, verdict >>

Ok == [kind |-> "ok", clause |-> ""]
Prop(c)  == [kind |-> "property", clause |-> c]
Drift(c) == [kind |-> "drift", clause |-> c]
Rank(v) == CASE v.kind = "ok" -> 0 [] v.kind = "drift" -> 1 [] v.kind = "property" -> 2
Worse(a, b) == IF Rank(b) > Rank(a) THEN b ELSE a     \* keeps the first of equal rank

(* equations compare by name and by the SET of names read *)
SameReads(a, b) == /\ Len(a) = Len(b)
                   /\ \A i \in DOMAIN a : Range(a[i]) = Range(b[i])
SameEqs(a, b) == /\ NamesOf(a) = NamesOf(b)
                 /\ SameReads([i \in DOMAIN a |-> a[i].reads], [i \in DOMAIN b |-> b[i].reads])

SameExos(a, b) == /\ Len(a) = Len(b)
                  /\ \A i \in DOMAIN a : /\ a[i].name = b[i].name /\ a[i].len = b[i].len
                                         /\ Range(a[i].reads) = Range(b[i].reads)

ObsLen(lens, nm) ==
    IF \E i \in DOMAIN lens : lens[i].name = nm
    THEN (lens[CHOOSE i \in DOMAIN lens : lens[i].name = nm]).len ELSE 0

JudgeParse(e) ==
    IF ~Accepts(e.block) THEN Drift("own_name_accepted")     \* the module is judged like any other
    ELSE IF ~NoDuplicates(NamesOf(e.endo)) THEN Drift("C20_EachVariableOnce")
    ELSE IF \/ ~SameEqs(e.endo, parser'.endo)
            \/ e.lagged # parser'.lagged
            \/ ~SameExos(e.exos, parser'.exos)
            \/ Range(e.ics) # Range(parser'.ics)
            \/ e.maxTime # parser'.maxTime
            \/ e.tol # parser'.tol
         THEN Drift("parse_lists")
    ELSE Ok

JudgeGenEq(e) ==
    IF ~e.ok THEN Prop("C20_ImportAndRun")
    ELSE IF \/ e.all # gen'.all
            \/ e.nonLagged # gen'.nonLagged
            \/ e.exos # NamesOf(gen'.exos)
            \/ ~SameReads(e.eqReads, gen'.eqReads)
         THEN Drift("generate_equations")
    ELSE Ok

ObsClosed(e) ==
    /\ \A i \in DOMAIN e.iterReads : Range(e.iterReads[i]) \subseteq (Range(e.iterUnpack) \cup Range(e.globals))
    /\ \A i \in DOMAIN e.declReads : Range(e.declReads[i]) \subseteq Range(e.globals)

JudgeFile(e) ==
    IF ~e.ok THEN Prop("C20_ImportAndRun")
    ELSE IF ~(SolverNames \subseteq Range(e.globals)) THEN Drift("C20_ResolvesSolverNames")
    ELSE IF e.tol # blk.tolText \/ e.maxTime # blk.maxTime THEN Drift("C20_AttributesFromCurrentBlock")
    ELSE IF ~e.vectorIsTuple THEN Drift("C20_VectorIsTuple")
    ELSE IF ~e.exoVerbatim THEN Drift("C20_ExogenousDeclaredVerbatim")
    ELSE IF ~ObsClosed(e) THEN Drift("C20_Closed")
    ELSE IF ~IteratorEvaluates(parser, [iterReads |-> e.iterReads]) THEN Drift("C20_IteratorEvaluatesEquations")
    ELSE IF ~(e.loopAfterPack \/ Range(NamesOf(e.pack)) \cap LoopNames = {}) THEN Drift("C20_LoopStateOwn")
    ELSE IF Range(NamesOf(e.pack)) \cap ModuleOwnNames # {} \/ NewCollision(Range(NamesOf(e.pack)))
         THEN Drift("C20_NoNameCapture")
    ELSE IF \/ e.decl # NamesOf(file'.decl)
            \/ e.pack # file'.pack
            \/ e.orig # file'.orig
            \/ e.iterUnpack # file'.iterUnpack
            \/ e.iterBinds # file'.iterBinds
            \/ ~SameReads(e.iterReads, file'.iterReads)
            \/ e.unpack # file'.unpack
            \/ e.loopAfterPack # file'.loopAfterPack
            \/ e.vectorIsTuple # file'.vectorIsTuple
            \/ Range(e.globals) # file'.globals
            \/ ~SameReads(e.declReads, file'.declReads)
            \/ e.varList # file'.varList
         THEN Drift("file_sections")
    ELSE Ok

JudgeImport(e) ==
    IF ~e.ok THEN Prop("C20_ImportAndRun")
    ELSE IF e.varList # file.varList THEN Drift("variable_list")
    ELSE IF e.lens # mod'.lens THEN Drift("declared_series")
    ELSE IF ~e.k0_ok THEN Drift("initial_values")
    ELSE Ok

(* the property clauses are judged on what the real step did, also when the spec predicts that the *)
(* step cannot succeed (then the prediction itself is the drift)                                     *)
JudgeStep(e) ==
    IF ~e.ok THEN Prop("C20_ImportAndRun")
    ELSE IF \E nm \in KeptSeries(parser, file) : ObsLen(e.lens, nm) # mod'.STEP + 1
         THEN Prop("C20_StepAppendsAll")                    \* exactly one value per period in every kept series
    ELSE IF ~SatisfiesOf([mod' EXCEPT !.status = "ok", !.resid = e.resid_ok])
         THEN Prop("C20_StepSatisfiesEquations")
    ELSE IF e.inproc_ok /\ ~e.agree_ok THEN Prop("C20_AgreesWithInProcess")
    ELSE IF mod'.status # "ok" THEN Drift("run_outcome")
    ELSE IF ~e.inproc_ok THEN Drift("inprocess_solver_failed")
    ELSE IF e.step # mod'.STEP THEN Drift("step_counter")
    ELSE IF e.lens # mod'.lens THEN Drift("series_lengths")
    ELSE Ok

JudgeCsv(e) ==
    IF phase # "done" THEN Prop("C20_StepAppendsAll")       \* stopped before MaxTime (kept only if nothing worse came first)
    ELSE IF ~e.ok THEN Prop("C20_HeaderTimeFirst")
    ELSE IF ~HeaderOk(e.header, NonLaggedOfBlock(ParseOp(blk))) THEN Prop("C20_HeaderTimeFirst")
    ELSE IF e.header # file.header THEN Drift("header_order")
    ELSE IF mod.status = "ok" /\ e.rows # mod.STEP + 1 THEN Drift("table_rows")
    ELSE Ok

PhaseFor(ev) == CASE ev = "ParseBlock"        -> {"init"}
                  [] ev = "GenerateEquations" -> {"parsed"}
                  [] ev = "GenerateFile"      -> {"equations"}
                  [] ev = "Import"            -> {"file"}
                  [] ev = "RunStep"           -> {"imported", "running"}
                  [] ev = "Regenerate"        -> IF ngen < MaxGenerations THEN {"done"} ELSE {}
                  [] ev = "Reparse"           -> IF first = NoBlock THEN {"file"} ELSE {}
                  [] OTHER                    -> {}

TraceInit == Init /\ l = 1 /\ verdict = Ok

TraceNext ==
    /\ l <= Len(Log)
    /\ l' = l + 1
    /\ LET e == Log[l] IN
       \/ /\ e.ev = "ParseBlock" /\ phase \in PhaseFor(e.ev) /\ e.ok
          /\ ParseAccept(e.block)
          /\ verdict' = Worse(verdict, JudgeParse(e))
       \/ /\ e.ev = "ParseBlock" /\ phase \in PhaseFor(e.ev) /\ ~e.ok      \* the constructor raised
          /\ ParseReject(e.block)
          /\ verdict' = Worse(verdict, IF Accepts(e.block) THEN Drift("parser_rejected_block") ELSE Ok)
       \/ /\ e.ev = "GenerateEquations" /\ phase \in PhaseFor(e.ev)
          /\ GenerateEquations
          /\ verdict' = Worse(verdict, JudgeGenEq(e))
       \/ /\ e.ev = "GenerateFile" /\ phase \in PhaseFor(e.ev)
          /\ GenerateFile
          /\ verdict' = Worse(verdict, JudgeFile(e))
       \/ /\ e.ev = "Import" /\ phase \in PhaseFor(e.ev)
          /\ Import
          /\ verdict' = Worse(verdict, JudgeImport(e))
       \/ /\ e.ev = "RunStep" /\ phase \in PhaseFor(e.ev)
          /\ RunStep(e.resid_ok)
          /\ verdict' = Worse(verdict, JudgeStep(e))
       \/ /\ e.ev = "Reparse" /\ phase \in PhaseFor(e.ev) /\ e.ok
          /\ first' = blk /\ blk' = e.block /\ parser' = ParseOp(e.block) /\ phase' = "parsed" /\ ngen' = 0
          /\ gen' = NoGen /\ file' = NoFile /\ mod' = NoModule
          /\ verdict' = Worse(verdict, JudgeParse(e))
       \/ /\ e.ev = "Reparse" /\ phase \in PhaseFor(e.ev) /\ ~e.ok
          /\ first' = blk /\ blk' = e.block /\ phase' = "rejected"
          /\ UNCHANGED << ngen, parser, gen, file, mod >>
          /\ verdict' = Worse(verdict, IF Accepts(e.block) THEN Drift("parser_rejected_block") ELSE Ok)
       \/ /\ e.ev = "Regenerate" /\ phase \in PhaseFor(e.ev)
          /\ Regenerate
          /\ verdict' = verdict
       \/ /\ e.ev = "Csv"
          /\ UNCHANGED vars
          /\ verdict' = Worse(verdict, JudgeCsv(e))
       \/ /\ e.ev \in {"ParseBlock", "GenerateEquations", "GenerateFile", "Import", "RunStep", "Regenerate", "Reparse"}
          /\ phase \notin PhaseFor(e.ev)             \* an event the spec has no action for in this phase
          /\ UNCHANGED vars
          /\ verdict' = Worse(verdict, IF e.ev = "RunStep" /\ ~e.ok THEN Prop("C20_ImportAndRun")
                                       ELSE Drift("event_order"))
       \/ /\ e.ev = "End"
          /\ PrintT(<< "VERDICT", e.tid, verdict.kind \o ":" \o verdict.clause >>)
          /\ phase' = "init" /\ ngen' = 0 /\ first' = NoBlock /\ blk' = NoBlock /\ parser' = NoParser /\ gen' = NoGen
          /\ file' = NoFile /\ mod' = NoModule
          /\ verdict' = Ok

TraceSpec == TraceInit /\ [][TraceNext]_tvars

AllConsumed == TLCGet("stats").diameter - 1 = Len(Log)
=============================================================================
