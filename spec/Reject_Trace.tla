---------------------------- MODULE Reject_Trace ----------------------------
(* Trace validation for Reject: declaration sequences executed on the real            *)
(* EquationSolver / Model classes by harness/checks/c11.py.                           *)
(*   Declare {kind, valid, raised}     Main {raised, numbers}                         *)
(* property:C11_RejectsInvalid  an invalid declaration was made and no exception was  *)
(*                              raised, or numbers (a k >= 1 entry) were produced     *)
(* drift:<clause>               the exception came at another point than the spec     *)
(*                              predicts, or a valid sequence was rejected            *)
EXTENDS Reject, Json, IOUtils

Log == ndJsonDeserialize(IOEnv.TRACE_FILE)

VARIABLES l, verdict, obsErr, obsNum
tvars == << vars, l, verdict, obsErr, obsNum >>

Ok == [kind |-> "ok", clause |-> ""]
P(c) == [kind |-> "property", clause |-> c]
D(c) == [kind |-> "drift", clause |-> c]
Rank(v) == CASE v.kind = "ok" -> 0 [] v.kind = "drift" -> 1 [] v.kind = "property" -> 2
Worse(a, b) == IF Rank(b) > Rank(a) THEN b ELSE a

Reset(w) == LET s == State0(w)
            IN /\ world = s.world /\ phase = s.phase /\ err = s.err /\ hasNumbers = s.hasNumbers
               /\ bad = s.bad /\ invalidSeen = s.invalidSeen /\ decls = << >> /\ opts = "default"

Valid(e) == IF e.kind = "market" THEN WellFormedMarket([cand |-> e.cand, named |-> e.named, rule |-> e.rule])
            ELSE e.valid

TraceInit == l = 1 /\ verdict = Ok /\ obsErr = FALSE /\ obsNum = FALSE /\ Reset("block")

(* the final judgement of one trace *)
Final ==
    LET p == IF invalidSeen /\ (~obsErr \/ obsNum) THEN P("C11_RejectsInvalid") ELSE Ok
        c == IF obsErr # err THEN D(IF invalidSeen THEN "reject_point" ELSE "valid_rejected")
             ELSE IF obsNum # hasNumbers THEN D("numbers")
             ELSE Ok
    IN Worse(verdict, Worse(p, c))

TraceNext ==
    /\ l <= Len(Log)
    /\ l' = l + 1
    /\ LET e == Log[l] IN
       \/ /\ e.ev = "Begin"
          /\ SetS(State0(e.world)) /\ opts' = e.opts /\ UNCHANGED << decls, verdict, obsErr, obsNum >>
       \/ /\ e.ev = "Declare"
          \* a configured market is classified by the spec (WellFormedMarket), not by the driver
          /\ SetS(IF phase # "declaring" THEN S
                  ELSE IF Valid(e) THEN DeclareValidOp(S) ELSE DeclareInvalidOp(S, e.kind))
          /\ obsErr' = (obsErr \/ e.raised)
          \* the spec predicts whether this very call raises
          /\ verdict' = Worse(verdict,
                              IF phase # "declaring" THEN D("declaration_after_end")
                              ELSE IF Valid(e) # e.valid THEN D("driver_classification")
                              ELSE IF Valid(e) /\ e.raised THEN D("valid_rejected")
                              ELSE IF ~Valid(e) /\ (e.raised # (e.kind \in Immediate)) THEN D("reject_point")
                              ELSE Ok)
          /\ UNCHANGED << decls, obsNum, opts >>
       \/ /\ e.ev = "Main"
          /\ SetS(IF phase = "declaring" THEN MainOp(S) ELSE S)
          /\ obsErr' = (obsErr \/ e.raised)
          /\ obsNum' = (obsNum \/ e.numbers)
          /\ UNCHANGED << decls, verdict, opts >>
       \/ /\ e.ev = "End"
          /\ PrintT(<< "VERDICT", e.tid, Final.kind \o ":" \o Final.clause >>)
          /\ SetS(State0("block")) /\ verdict' = Ok /\ obsErr' = FALSE /\ obsNum' = FALSE
          /\ UNCHANGED << decls, opts >>

TraceSpec == TraceInit /\ [][TraceNext]_tvars

AllConsumed == TLCGet("stats").diameter - 1 = Len(Log)
=============================================================================
