SPECIFICATION TraceSpec
CONSTANTS
  Blocks = {}
  MathNames = {"sqrt", "exp", "log", "floor", "pi"}
  ResidChoices = {TRUE, FALSE}
  MaxGenerations = 2
  MaxGenerations = 2
  AsFound_KUndefined = FALSE
  AsFound_ChainedLagNoSeries = FALSE
  AsFound_OwnNamesAccepted = FALSE
POSTCONDITION AllConsumed
CHECK_DEADLOCK FALSE
