SPECIFICATION TraceSpec
CONSTANTS
  Blocks = {}
  FirstBlocks = {}
  SecondBlocks = {}
  MathNames = {"sqrt", "exp", "log", "floor", "pi", "tanh", "sinh", "cosh", "atan2", "log1p", "expm1", "log2", "hypot", "e", "tau", "erf", "copysign", "degrees", "gamma", "trunc", "fabs"}
  ResidChoices = {TRUE, FALSE}
  MaxGenerations = 2
  AsFound_KUndefined = FALSE
  AsFound_ChainedLagNoSeries = FALSE
  AsFound_OwnNamesAccepted = FALSE
POSTCONDITION AllConsumed
CHECK_DEADLOCK FALSE
