SPECIFICATION TraceSpec
CONSTANTS
  Blocks = {}
  MathNames = {"sqrt", "exp", "log", "floor", "pi"}
  ResidChoices = {TRUE, FALSE}
  AsFound_KUndefined = FALSE
POSTCONDITION AllConsumed
CHECK_DEADLOCK FALSE
