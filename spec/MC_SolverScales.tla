--------------------------- MODULE MC_SolverScales ---------------------------
EXTENDS SolverScales, Json
MC_Exponents == {0 - 300, 0 - 100, 0 - 20, 0 - 14, 0 - 13, 0 - 11, 0 - 6, 0, 9, 100}
Terminal == phase = "recorded"
Emit == Terminal => PrintT(<< "BEH", ToJson(decl) >>)
=============================================================================
