---------------------------- MODULE Sector_Trace ----------------------------
(* Trace validation for Sector: executions of a real sfc_models Sector (inside a real  *)
(* Model / Country), recorded by harness/checks/c06.py, are folded through the actions  *)
(* of Sector.  One total verdict per trace id.                                          *)
(*   property:<clause>  a sentence of C06 is false on the observed values               *)
(*   drift:<clause>     the code did something the spec action does not predict         *)
(* (a verdict other than ok is printed as kind:clause@n, n = the first call it is about) *)
(*                                                                                     *)
(* An event of the log (one per call):                                                  *)
(*   ev "Do", a (the action record), ok (the call returned normally),                   *)
(*   okF, F   F.RHS() was evaluable to integers on both valuations / its two values     *)
(*   okI, INC the same for INC.RHS()                                                    *)
(*   defs     flow name -> [k, d, v, e]: class of the variable's RHS text (absent /      *)
(*            empty '' / zero '0.0' / defined), the text, its two values, evaluable      *)
(* The expected ledger values are functions of the history alone (ExpF, ExpINC); the     *)
(* definition clause is judged on the observed state before and after the call.          *)
EXTENDS Sector, Json, IOUtils

TLog == ndJsonDeserialize(IOEnv.TRACE_FILE)

VARIABLES l, verdict,
          od        \* observed definitions after the previous call of this trace
tvars == << vars, l, verdict, od >>

Ok == [kind |-> "ok", clause |-> "", at |-> 0]        \* at: number of the call that was judged
Rank(v) == CASE v.kind = "ok" -> 0 [] v.kind = "drift" -> 1 [] v.kind = "property" -> 2
Worse(a, b) == IF Rank(b) > Rank(a) THEN b ELSE a     \* keeps the first of equal rank

ObsAbsent == [k |-> "absent", d |-> "", v |-> << 0, 0 >>, e |-> TRUE]
OdInit == [m \in FlowNames |-> ObsAbsent]

(* the code renders an empty right-hand side as '0.0': empty and zero are one observable class *)
CoarseK(k) == IF k = "empty" THEN "zero" ELSE k
ValOfSpecDef(c) == IF c.k = "absent" THEN << 0, 0 >> ELSE << DenOfDef(c, Vals[1]), DenOfDef(c, Vals[2]) >>
ObsProtected(o) == o.k = "defined" /\ o.d \notin ZeroSpelled       \* Protected, on an observed definition

(* C06_DefineOnce on what was observed before (b) and after (a) the call *)
SameDefinition(x, y) == y.k = "defined" /\ y.v = x.v /\ y.e = x.e /\ (x.e \/ y.d = x.d)
DefineOnceObs(b, a, act) ==
    act.op = "CF" =>
        /\ \A m \in FlowNames : ObsProtected(b[m]) => SameDefinition(b[m], a[m])
        /\ (DefinesSomething(act) /\ b[act.body].k # "defined") =>
               /\ a[act.body].k = "defined" /\ a[act.body].e
               /\ a[act.body].v = << DenDef(act.eqn, Vals[1]), DenDef(act.eqn, Vals[2]) >>

(* conformance: the observed definitions are the ones the spec action computes *)
DefsAsSpec(obs, sp) ==
    \A m \in FlowNames : /\ CoarseK(obs[m].k) = CoarseK(Eff(sp[m]))
                         /\ obs[m].e /\ obs[m].v = ValOfSpecDef(sp[m])
DefTextAsSpec(obs, sp) ==
    \A m \in FlowNames : (sp[m].k = "defined" /\ NoTerms(sp[m])) => obs[m].d = sp[m].d

V(kind, clause) == [kind |-> kind, clause |-> clause, at |-> Len(log')]

Judge(e) ==
    IF ~e.okF \/ e.F # << ExpF(log', 1), ExpF(log', 2) >>
        THEN V("property", "C06_F")
    ELSE IF ~e.okI \/ e.INC # << ExpINC(log', 1), ExpINC(log', 2) >>
        THEN V("property", "C06_INC")
    ELSE IF ~DefineOnceObs(od, e.defs, e.a)
        THEN V("property", "C06_DefineOnce")
    ELSE IF ~e.ok
        THEN V("drift", "call_raised")
    ELSE IF ~DefsAsSpec(e.defs, defs')
        THEN V("drift", "defs_state")
    ELSE IF ~DefTextAsSpec(e.defs, defs')
        THEN V("drift", "def_text")
    ELSE Ok

TraceInit == Init /\ l = 1 /\ verdict = Ok /\ od = OdInit

TraceNext ==
    /\ l <= Len(TLog)
    /\ l' = l + 1
    /\ LET e == TLog[l] IN
       \/ /\ e.ev = "Do"
          /\ IsAct(e.a)
          /\ Do(e.a)
          /\ verdict' = Worse(verdict, Judge(e))
          /\ od' = e.defs
       \/ /\ e.ev = "End"
          /\ PrintT(<< "VERDICT", e.tid, verdict.kind \o ":" \o verdict.clause
                                       \o (IF verdict.kind = "ok" THEN "" ELSE "@" \o ToString(verdict.at)) >>)
          /\ Install(InitSt, InitSt.defs)
          /\ verdict' = Ok
          /\ od' = OdInit

TraceSpec == TraceInit /\ [][TraceNext]_tvars

AllConsumed == TLCGet("stats").diameter - 1 = Len(TLog)
=============================================================================
