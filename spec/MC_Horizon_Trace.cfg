SPECIFICATION TraceSpec
CONSTANTS
  Configs <- NoConfigs
POSTCONDITION AllConsumed
CHECK_DEADLOCK FALSE
