SPECIFICATION Spec
CONSTANTS
  Cap = 1
  Horizon = 2
  AsFound_NaNExitsLoop = FALSE
  AsFound_DecorativeAfterAppend = FALSE
  AsFound_NoSweepAtBigTolerance = FALSE
  MaxRetries = 1
  CapBoost = 2
  SweepAlphabet <- MC_RetrySweeps
  DecoAlphabet <- MC_RetryDeco
  BigChoices <- MC_SmallTol
  ZeroChoices <- MC_NoZero
  ZeroToleranceFallsBack = FALSE
  LaggedRecordedAtSetup = TRUE
  Hyp_NoCap = FALSE
INVARIANT TypeOK
INVARIANT C02_SolvedOnlyIfConverged
INVARIANT C02_SolvedOnlyAfterSweep
INVARIANT C11_SolvedOnlyAtRequestedTolerance
INVARIANT C02_PeriodAllOrNothing
INVARIANT C11_BoundedSweeps
INVARIANT C11_NothingSolvedAtCap
INVARIANT C11_EqualLengthsAfterFailure
INVARIANT LengthsOfSolved
PROPERTY C11_FailureRaises
PROPERTY C11_PrefixIntact
CHECK_DEADLOCK FALSE
