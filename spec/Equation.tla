------------------------------ MODULE Equation ------------------------------
(* sfc_models/equation.py (Term, Equation) and utils.create_equation_from_terms.      *)
(*                                                                                    *)
(* One action per public call:                                                        *)
(*   Start(kind, lead)  Equation(lhs, desc, rhs=...)  kind = "none"   rhs=()          *)
(*                                                    kind = "parsed" rhs=<string>    *)
(*                                                    kind = "blob"   [Term(s,True)]  *)
(*                                                    kind = "assign" the one-string  *)
(*                                                    form Equation('lhs = <rhs> # d')*)
(*                      ("blob" is what Sector.AddVariable does with every equation)  *)
(*   AddTerm(form)      Equation.AddTerm(<string>)                                    *)
(*   Join(list)         create_equation_from_terms(list)                              *)
(*                                                                                    *)
(* The operators StartOp / AddTermOp / JoinOp are the single source of truth: the     *)
(* actions below and the trace specification Equation_Trace both use them.            *)
(* Property C12 is stated as invariants over the value Den(.) of the rendered         *)
(* right-hand side under the integer valuations Vals.                                 *)
EXTENDS Integers, Sequences, TLC, FiniteSets

CONSTANTS
    Leads,          \* set of [text, parse, coef, body]: leading expressions
    Bodies,         \* term bodies (strings)
    SignForms,      \* set of [s1, br, s2]: sign / bracket spellings of a term
    JoinElems,      \* elements usable in a term list (strings)
    MaxTerms,       \* bound on the number of AddTerm calls
    MaxJoin,        \* bound on the length of a term list
    AsFound_BlobMerge   \* TRUE: model the pinned code (AddTerm merges into an opaque term)

Signs == {"", "+", "-"}
AllSignForms == { t \in [s1 : Signs, br : BOOLEAN, s2 : Signs] : t.br \/ t.s2 = "" }   \* s2 only inside brackets
Forms == { [s1 |-> t.s1, br |-> t.br, s2 |-> t.s2, body |-> b] : t \in SignForms, b \in Bodies }

SignOf(s) == IF s = "-" THEN -1 ELSE 1
FormCoef(f) == SignOf(f.s1) * SignOf(f.s2)
FormText(f) == f.s1 \o (IF f.br THEN "(" \o f.s2 \o f.body \o ")" ELSE f.body)

----------------------------------------------------------------------------
(* valuations: two fixed integer environments; every value is a multiple of 1/2 in both, and Den(.) is TWICE *)
(* the value, so that x/y and its reciprocal y/x are both representable and distinguishable                  *)
Vals == << [x |-> 6,  y |-> 3, a |-> 5,  b |-> 2, c |-> 4, w |-> 40],
           [x |-> -4, y |-> 2, a |-> -3, b |-> 7, c |-> -5, w |-> -20] >>

DenText1(s, v) ==
    CASE s = ""        -> 0
      [] s = "x"       -> v.x
      [] s = "y"       -> v.y
      [] s = "a"       -> v.a
      [] s = "2"       -> 2
      [] s = "3"       -> 3      \* a second, different number: two numeric terms in one equation
      \* pure numbers with more significant digits than a '%g' keeps
      [] s = "1234567" -> 1234567
      [] s = "12345678" -> 12345678
      [] s = "x*y"     -> v.x * v.y
      [] s = "y*x"     -> v.y * v.x
      [] s = "x/y"     -> v.x \div v.y
      [] s = "a*b"     -> v.a * v.b
      [] s = "a-b"     -> v.a - v.b
      [] s = "-a"      -> 0 - v.a
      [] s = "(x-y)"   -> v.x - v.y
      [] s = "x*-y"    -> 0 - v.x * v.y
      [] s = "x/-y"    -> 0 - (v.x \div v.y)
      [] s = "x--y"    -> v.x + v.y
      [] s = "a-y"     -> v.a - v.y
      \* leading expressions that contain the character '=' (comparisons), for the one-string constructor form
      [] s = "(x>=6)*a" -> IF v.x >= 6 THEN v.a ELSE 0
      [] s = "(x<=6)*a" -> IF v.x <= 6 THEN v.a ELSE 0
      [] s = "(x==y)*a" -> IF v.x = v.y THEN v.a ELSE 0
      [] s = "(x!=y)*a" -> IF v.x # v.y THEN v.a ELSE 0
      \* operators that do not commute with a sign or a scale: floor division and remainder (b > 0 in both valuations,
      \* where TLA+'s \div and % agree with Python's // and %)
      [] s = "-(a//b)" -> 0 - (v.a \div v.b)
      [] s = "-(a%b)"  -> 0 - (v.a % v.b)
      [] s = "a//b"    -> v.a \div v.b
      \* small decimal coefficients: texts that begin like the zero placeholder '0.0' without being it
      [] s = "0.05*w"  -> v.w \div 20
      [] s = "0.025*w" -> v.w \div 40
      [] s = "x*2"     -> v.x * 2
      [] s = "2*x"     -> 2 * v.x
      [] s = "6/y"     -> 6 \div v.y
      [] s = "x/2"     -> v.x \div 2
      \* join elements
      [] s = "+x"      -> v.x
      [] s = "-x"      -> 0 - v.x
      [] s = " y "     -> v.y
      [] s = "-x*y"    -> 0 - v.x * v.y
      [] s = "+a*(b+c)" -> v.a * (v.b + v.c)
      [] s = "-(x-y)"  -> 0 - (v.x - v.y)
      [] s = "+ 2"     -> 2
      [] s = "a*(b+c)" -> v.a * (v.b + v.c)

DenText(s, v) == IF s = "y/x" THEN (2 * v.y) \div v.x
                 ELSE IF s = "100000.5" THEN 200001
                 ELSE IF s = "0.025*w" THEN v.w \div 20
                 ELSE 2 * DenText1(s, v)

----------------------------------------------------------------------------
(* A term as the code stores it *)
MkTerm(text, coef, blob) == [text |-> text, coef |-> coef, blob |-> blob]

StartOp(kind, lead) ==
    CASE kind = "none"   -> << >>
      [] kind = "blob"   -> << MkTerm(lead.text, 1, TRUE) >>
      [] kind \in {"parsed", "assign"} -> IF lead.parse = "term"
                            THEN << MkTerm(lead.body, lead.coef, FALSE) >>
                            ELSE << MkTerm(lead.text, 1, TRUE) >>

(* Equation.AddTerm: merge with the first stored term of equal text, else append.      *)
(* Required behaviour: an opaque (blob) term is never a merge target, because its      *)
(* coefficient is not rendered.                                                        *)
MergeIdx(terms, text) ==
    LET cand == { i \in 1..Len(terms) :
                    /\ terms[i].text = text
                    /\ (AsFound_BlobMerge \/ ~terms[i].blob) }
    IN IF cand = {} THEN 0 ELSE CHOOSE i \in cand : \A j \in cand : i <= j

AddTermOp(terms, f) ==
    LET i == MergeIdx(terms, f.body)
    IN IF i = 0 THEN Append(terms, MkTerm(f.body, FormCoef(f), FALSE))
       ELSE [terms EXCEPT ![i].coef = @ + FormCoef(f)]

(* value of what GetRightHandSide renders: an opaque term renders as its text whatever *)
(* its stored coefficient is; a zero coefficient renders as nothing                    *)
RECURSIVE DenTerms(_, _)
DenTerms(terms, v) ==
    IF terms = << >> THEN 0
    ELSE LET t == Head(terms)
         IN (IF t.blob THEN DenText(t.text, v) ELSE t.coef * DenText(t.text, v))
            + DenTerms(Tail(terms), v)

CoefStr(c) == ToString(c) \o ".0"
TermStr(t) ==
    IF t.blob THEN t.text
    ELSE IF t.coef = 0 THEN ""
    ELSE IF t.coef = 1 THEN "+" \o t.text
    ELSE IF t.coef = -1 THEN "-" \o t.text
    ELSE IF t.coef > 0 THEN "+" \o CoefStr(t.coef) \o "*" \o t.text
    ELSE CoefStr(t.coef) \o "*" \o t.text

RECURSIVE Concat(_)
Concat(terms) == IF terms = << >> THEN "" ELSE TermStr(Head(terms)) \o Concat(Tail(terms))

(* first character is '+' exactly when the first non-empty piece is a non-blob with positive coef *)
RECURSIVE LeadsWithPlus(_)
LeadsWithPlus(terms) ==
    IF terms = << >> THEN FALSE
    ELSE LET t == Head(terms)
         IN IF TermStr(t) = "" THEN LeadsWithPlus(Tail(terms))
            ELSE IF t.blob THEN FALSE      \* leads used here never start with '+'
            ELSE t.coef > 0

RECURSIVE ConcatNoLeadPlus(_)
ConcatNoLeadPlus(terms) ==
    IF terms = << >> THEN ""
    ELSE LET t == Head(terms)
         IN IF TermStr(t) = "" THEN ConcatNoLeadPlus(Tail(terms))
            ELSE IF ~t.blob /\ t.coef = 1 THEN t.text \o Concat(Tail(terms))
            ELSE IF ~t.blob /\ t.coef > 1 THEN CoefStr(t.coef) \o "*" \o t.text \o Concat(Tail(terms))
            ELSE Concat(terms)

RenderText(terms) ==
    LET s == IF LeadsWithPlus(terms) THEN ConcatNoLeadPlus(terms) ELSE Concat(terms)
    IN IF s = "" THEN "0.0" ELSE s

----------------------------------------------------------------------------
(* create_equation_from_terms *)
RECURSIVE SumList(_, _)
SumList(l, v) == IF l = << >> THEN 0 ELSE DenText(Head(l), v) + SumList(Tail(l), v)

JoinOp(l) == [value |-> << SumList(l, Vals[1]), SumList(l, Vals[2]) >>, after |-> l]

----------------------------------------------------------------------------
VARIABLES mode,      \* "init" | "eq" | "join"
          start,     \* arguments of the Start call (history)
          terms,     \* the Equation's TermList
          lead,      \* value of the leading expression under Vals (pair)
          added,     \* sequence of forms added so far (history)
          jn         \* result of the last Join

vars == << mode, start, terms, lead, added, jn >>

NoJoin == [value |-> << 0, 0 >>, after |-> << >>, arg |-> << >>]

NoStart == [kind |-> "none", lead |-> ""]
Init == /\ mode = "init" /\ start = NoStart /\ terms = << >> /\ lead = << 0, 0 >> /\ added = << >> /\ jn = NoJoin

LeadDen(kind, l) == IF kind = "none" THEN << 0, 0 >>
                    ELSE << DenText(l.text, Vals[1]), DenText(l.text, Vals[2]) >>

Start(kind, l) ==
    /\ mode = "init"
    /\ mode' = "eq"
    /\ terms' = StartOp(kind, l)
    /\ lead' = LeadDen(kind, l)
    /\ start' = [kind |-> kind, lead |-> IF kind = "none" THEN "" ELSE l.text]
    /\ UNCHANGED << added, jn >>

AddTerm(f) ==
    /\ mode = "eq"
    /\ Len(added) < MaxTerms
    /\ terms' = AddTermOp(terms, f)
    /\ added' = Append(added, f)
    /\ UNCHANGED << mode, start, lead, jn >>

RECURSIVE SeqsUpTo(_, _)
SeqsUpTo(S, n) == IF n = 0 THEN { << >> }
                  ELSE LET prev == SeqsUpTo(S, n - 1)
                       IN prev \cup { Append(s, e) : s \in { p \in prev : Len(p) = n - 1 }, e \in S }

Join(l) ==
    /\ mode = "init"
    /\ mode' = "join"
    /\ jn' = [JoinOp(l) EXCEPT !.after = l] @@ [arg |-> l]
    /\ UNCHANGED << start, terms, lead, added >>

Next == \/ \E k \in {"none", "parsed", "blob", "assign"}, l \in Leads : Start(k, l)
        \/ \E f \in Forms : AddTerm(f)
        \/ \E l \in SeqsUpTo(JoinElems, MaxJoin) : Join(l)

Spec == Init /\ [][Next]_vars

----------------------------------------------------------------------------
(* C12 *)
RECURSIVE SumAdded(_, _)
SumAdded(fs, v) == IF fs = << >> THEN 0
                   ELSE FormCoef(Head(fs)) * DenText(Head(fs).body, v) + SumAdded(Tail(fs), v)

C12_ValuePreserved ==
    mode = "eq" => \A i \in 1..2 : DenTerms(terms, Vals[i]) = lead[i] + SumAdded(added, Vals[i])

C12_RendersValid == mode = "eq" => RenderText(terms) # ""

C12_JoinPreservesSum ==
    mode = "join" => \A i \in 1..2 : jn.value[i] = SumList(jn.arg, Vals[i])

C12_JoinLeavesArgument == mode = "join" => jn.after = jn.arg

TypeOK == /\ mode \in {"init", "eq", "join"}
          /\ Len(added) <= MaxTerms
=============================================================================
