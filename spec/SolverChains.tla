----------------------------- MODULE SolverChains -----------------------------
(* C02, chains of copy variables and the decorative pass.                              *)
(*                                                                                    *)
(* Submitted system:  a source S (simultaneous x = 0.5*x + c, exogenous path, or a     *)
(* lagged variable), a chain of n copies  v1 = S, v2 = v1, ..., vn = v(n-1)  written   *)
(* in ANY declaration order, the source equation first or last, and optionally a leaf  *)
(* on link j: a derived-only equation  lf = 2*vj + 1  or a simultaneous user           *)
(* u = 0.25*u + vj, written first or last.  Reduction on / off.                        *)
(*                                                                                    *)
(* With reduction the copies (and the derived-only leaf) are set aside as decorative   *)
(* equations.  Their list order is decided by the parser's reduction rounds; the spec  *)
(* abstracts it to ANY order (Reduce chooses a permutation) and to two targetings:     *)
(* every copy still reads its predecessor, or every copy reads the source directly.    *)
(* After the iteration of period k the decorative pass evaluates the list in order; an *)
(* equation whose input is a decorative variable that has no value yet is postponed    *)
(* (the code relies on a NameError) and retried in the next round.                     *)
(* Values are abstracted to period tags: "cur" = the value of period k, "stale" = the  *)
(* value of period k-1, "none" = no value yet.                                         *)
(*                                                                                    *)
(* StalePreload = FALSE: what the code does (decorative variables have no value before *)
(* the pass).  TRUE: decorative variables are pre-loaded with their k-1 value; the     *)
(* NameError never comes and a copy listed before its input silently gets the stale    *)
(* value - TLC finds the counterexample.                                               *)
EXTENDS Integers, Sequences, TLC, FiniteSets

CONSTANTS MaxLinks, Sources, LeafPlaces, StalePreload

LEAF == 100          \* index of the leaf in the decorative list
SRC == 0             \* index of the source

AllSources == {"sim", "exo", "lag"}
LeafKinds == {"none", "deco", "sim"}

(* one round of the decorative pass over the pending list *)
RECURSIVE OneRound(_, _, _, _)
OneRound(list, reads, val, failed) ==
    IF list = << >> THEN [val |-> val, failed |-> failed]
    ELSE LET e == Head(list)
             r == reads[e]
         IN IF r = SRC THEN OneRound(Tail(list), reads, [val EXCEPT ![e] = "cur"], failed)
            ELSE IF val[r] = "none" THEN OneRound(Tail(list), reads, val, Append(failed, e))    \* NameError
            ELSE OneRound(Tail(list), reads, [val EXCEPT ![e] = val[r]], failed)

RECURSIVE Pass(_, _, _)
Pass(list, reads, val) ==
    LET r == OneRound(list, reads, val, << >>)
    IN IF r.failed = << >> \/ Len(r.failed) = Len(list) THEN r.val
       ELSE Pass(r.failed, reads, r.val)

Elements(n, leaf) == (1..n) \cup (IF leaf = "deco" THEN {LEAF} ELSE {})

(* all sequences that list every element of a finite set once *)
ListsOf(S) == { f \in [1..Cardinality(S) -> S] : \A i, j \in 1..Cardinality(S) : i # j => f[i] # f[j] }

ReadsOf(n, leafOn, direct) ==
    [e \in (1..n) \cup {LEAF} |->
        IF e = LEAF THEN (IF direct THEN SRC ELSE leafOn)
        ELSE IF direct \/ e = 1 THEN SRC ELSE e - 1]

NoDecl == [n |-> 1, order |-> << 1 >>, srcFirst |-> TRUE, leaf |-> "none", leafOn |-> 0, leafFirst |-> FALSE,
           src |-> "sim", red |-> FALSE]

VARIABLES phase,    \* "init" | "declared" | "reduced" | "passed"
          decl,     \* the submitted system
          list,     \* decorative list (sequence of element indices)
          reads,    \* element -> what it reads
          val       \* element -> "none" | "stale" | "cur" after the pass

vars == << phase, decl, list, reads, val >>

Init == /\ phase = "init" /\ decl = NoDecl /\ list = << >>
        /\ reads = ReadsOf(1, 0, TRUE) /\ val = [e \in {1, LEAF} |-> "none"]

Declare(n, order, srcFirst, leaf, leafOn, leafFirst, src, red) ==
    /\ phase = "init"
    /\ phase' = "declared"
    /\ decl' = [n |-> n, order |-> order, srcFirst |-> srcFirst, leaf |-> leaf, leafOn |-> leafOn,
                leafFirst |-> leafFirst, src |-> src, red |-> red]
    /\ UNCHANGED << list, reads, val >>

(* the reduction sets the copies aside, in some order, reading the predecessor or the source *)
(* (the pass model does not depend on the spelling of the declaration: it is explored from the       *)
(*  canonically written declaration of each (n, leaf, leafOn, red) only)                            *)
Canonical(d) == /\ d.order = [i \in 1..d.n |-> i] /\ d.srcFirst /\ ~d.leafFirst
                /\ d.src = CHOOSE x \in Sources : TRUE
Reduce(l, direct) ==
    /\ phase = "declared" /\ Canonical(decl)
    /\ phase' = "reduced"
    /\ list' = IF decl.red THEN l ELSE << >>
    /\ reads' = ReadsOf(decl.n, decl.leafOn, direct)
    /\ UNCHANGED << decl, val >>

DecorativePass ==
    /\ phase = "reduced"
    /\ phase' = "passed"
    /\ val' = Pass(list, reads,
                   [e \in (1..decl.n) \cup {LEAF} |-> IF StalePreload THEN "stale" ELSE "none"])
    /\ UNCHANGED << decl, list, reads >>

Next == \/ \E n \in 1..MaxLinks, src \in Sources, red \in BOOLEAN, srcFirst \in BOOLEAN,
              leaf \in LeafKinds, leafFirst \in LeafPlaces :
              \E order \in ListsOf(1..n), leafOn \in (IF leaf = "none" THEN {0} ELSE 1..n) :
                 /\ (leaf = "none" => ~leafFirst)
                 /\ Declare(n, order, srcFirst, leaf, leafOn, leafFirst, src, red)
        \/ \E direct \in BOOLEAN : \E l \in ListsOf(Elements(decl.n, decl.leaf)) : Reduce(l, direct)
        \/ DecorativePass

Spec == Init /\ [][Next]_vars

TypeOK == /\ phase \in {"init", "declared", "reduced", "passed"}
          /\ decl.n \in 1..MaxLinks /\ decl.src \in AllSources /\ decl.leaf \in LeafKinds

(* C02: every derived-only variable is reported with the value its equation gives in THIS period *)
C02_DecorativeValuesCurrent ==
    phase = "passed" => \A i \in 1..Len(list) : val[list[i]] = "cur"
=============================================================================
