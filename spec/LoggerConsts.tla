---------------------------- MODULE LoggerConsts ----------------------------
(* Constant values shared by the bounded instances and the trace instance of Logger *)
(* (cfg files cannot hold records).                                                 *)
EXTENDS Integers

MC_StdLogs   == {"log", "eqn", "timeseries", "step", "steadystate_0"}
MC_OtherLogs == {"init"}
MC_Bases     == {"b1", "b2"}
MC_MainLogs  == {"log", "eqn", "timeseries"}
MC_None      == {}
MC_MainAlways == {"timeseries"}
MC_KindsBoth == {"solves", "fails"}

Sh(p, e, k) == [prio |-> p, endline |-> e, kind |-> k]

(* life-cycle instance: one plain message shape *)
MC_ShapesOne == { Sh(1, TRUE, "plain") }
(* write-rule instance: priorities 0 / 1 / 2 / 3 against cutoffs 0 / 2 / 10, the four kinds of text, both endline settings *)
MC_ShapesAll == { Sh(1, TRUE, "plain"), Sh(1, FALSE, "plain"), Sh(3, TRUE, "plain"), Sh(0, TRUE, "fmt"),
                  Sh(2, FALSE, "nl"), Sh(1, TRUE, "nl"), Sh(1, TRUE, "empty"), Sh(1, FALSE, "empty"), Sh(3, FALSE, "empty") }
MC_RegTwo    == {"log", "init"}
MC_RegOne    == {"log"}
MC_WriteTwo  == {"log", "init"}
MC_WriteEqn  == {"log", "eqn"}
MC_WriteSim  == {"log", "eqn", "timeseries", "init"}
MC_RegSim    == {"log", "eqn", "init"}
MC_B1        == {"b1"}
MC_MainB2    == {"b2", "none"}
MC_MainAll   == {"b1", "b2", "none"}
MC_Cut10     == {10}
MC_CutAll    == {0, 2, 10}
=============================================================================
