---------------------------- MODULE MC_Reduction ----------------------------
(* Bounded instances of Reduction and behaviour emission.                     *)
(* A behaviour = one initial system (the declared lines, in order) + the      *)
(* partition the reduction loop ends with.                                    *)
EXTENDS Reduction, Json

AllKinds == {"alias", "palias", "const", "sum", "inc", "lag", "exo", "time"}
BothICs  == {NoIC, 3}

MC_Vars3 == << "x", "y", "w" >>
MC_Vars4 == << "x", "y", "x1", "y1" >>       \* names that are prefixes of each other (simulation)

MC_ExoPaths == ("x" :> << 1, 2, 4, 7 >>) @@ ("y" :> << 2, 6, 1, 4 >>) @@ ("w" :> << 6, 1, 2, 9 >>)
            @@ ("x1" :> << 6, 1, 2, 9 >>) @@ ("y1" :> << 4, 0, 8, 3 >>)

(* quick: every system over 1 and 2 variables; of the 3-variable systems the slice in which the *)
(* third variable is  u + 1  or a lag and carries no initial condition                          *)
MC_KindsQuick == << AllKinds, AllKinds, {"inc", "lag"} >>
MC_ICsQuick   == << BothICs, BothICs, {NoIC} >>

(* thorough: every system over 3 variables *)
MC_KindsAll3 == << AllKinds, AllKinds, AllKinds >>
MC_ICsAll3   == << BothICs, BothICs, BothICs >>

(* simulation: systems over 4 variables *)
MC_KindsAll4 == << AllKinds, AllKinds, AllKinds, AllKinds >>
MC_ICsAll4   == << BothICs, BothICs, BothICs, BothICs >>

OrigDef(x) ==
    IF x \in SeqVars(orig.lagged) THEN D("lag", orig.lagged[LagOf(orig, x)].src, "", 0, << >>)
    ELSE IF x \in SeqVars(orig.exo) THEN D("exo", "", "", 0, orig.exo[ExoOf(orig, x)].p)
    ELSE orig.endo[CHOOSE i \in 1..Len(orig.endo) : orig.endo[i].var = x].def

NamesOf(s) == [i \in 1..Len(s) |-> s[i].var]

NOrig == Len(orig.endo) - 1 + Len(orig.lagged) + Len(orig.exo)      \* without the parser's own t

Terminal == phase = "done"
Emit == Terminal =>
    PrintT(<< "BEH", ToJson([
        decl   |-> [i \in 1..NOrig |-> [var |-> Vars[i], def |-> OrigDef(Vars[i]), ic |-> orig.ics[Vars[i]]]],
        endo   |-> NamesOf(endo),
        deco   |-> NamesOf(deco),
        lagged |-> NamesOf(lagged),
        exo    |-> NamesOf(exo)]) >>)
=============================================================================
