---------------------------- MODULE MC_Reduction ----------------------------
(* Bounded instances of Reduction and behaviour emission.                     *)
(* A behaviour = one initial system (the declared lines, in order) + the      *)
(* partition the reduction loop ends with.                                    *)
EXTENDS Reduction, Json

OldKinds == {"alias", "palias", "const", "sum", "inc", "lag", "exo", "time"}
NewKinds == {"neg", "negs", "negb", "sq", "nsq", "dbl", "diff", "prod", "quo", "self", "fn", "abs"}
PlainKinds == OldKinds \cup {"self"}     \* slice A: the kinds without sign / power / product, + reads-itself
Spellings == {"negs", "negb"}            \* only offered for the first variable
AllKinds == OldKinds \cup NewKinds
BothICs  == {NoIC, 0, 3}     \* an explicitly stated ZERO initial condition is an initial condition like any other
(* (bound of the instances: the zero is offered on the alias-like kinds, where it pins the variable   *)
(*  at 0 while its equation would give it the k = 0 value of another variable)                       *)
ZeroOK(d, ic) == ic # 0 \/ d.kind \in {"alias", "palias", "neg"}

MC_Vars3 == << "x", "y", "w" >>
MC_Vars4 == << "x", "y", "x1", "y1" >>       \* names that are prefixes of each other (simulation)

MC_ExoPaths == ("x" :> << 1, 2, 4, 7 >>) @@ ("y" :> << 2, 6, 1, 4 >>) @@ ("w" :> << 6, 1, 2, 9 >>)
            @@ ("x1" :> << 6, 1, 2, 9 >>) @@ ("y1" :> << 4, 0, 8, 3 >>)

MC_KindsAll3 == << AllKinds, AllKinds \ Spellings, AllKinds \ Spellings >>
MC_ICsAll3   == << BothICs, BothICs, BothICs >>
MC_KindsAll4 == << AllKinds, AllKinds \ Spellings, AllKinds \ Spellings, AllKinds \ Spellings >>
MC_ICsAll4   == << BothICs, BothICs, BothICs, BothICs >>

KindsOf(f) == { f[x].kind : x \in DOMAIN f }
NumICs(c)  == Cardinality({ x \in DOMAIN c : c[x] # NoIC })

(* quick: every system over 1 and 2 variables (all kinds); of the 3-variable systems two slices, *)
(* the third variable carrying no initial condition:                                             *)
(*   A  first two variables of the kinds without sign / power / product (incl. a variable that    *)
(*      reads itself, x = 0.5*x + v), third  u + 1  or a lag: a self-reference with no other      *)
(*      reader, with another reader, with its own lag as reader                                   *)
(*   B  first variable a (negated / plain / plus-) alias, second a base (constant, lag, path,    *)
(*      time) or again an alias / negation (no initial condition), third a USE: u**2, -u**2, 2*u, u - v, -u, u * v,     *)
(*      u / v (base of a power, after a unary minus, in a product, as divisor)                   *)
(*      -> contains every pair (negated alias, square of it)                                     *)
(*   C  one of the first two variables a quotient, the third  w = k : a divisor (or dividend)     *)
(*      that is 0 at k = 0 only, under a quotient that is set aside or that the other variable    *)
(*      reads                                                                                     *)
MC_LineQuick(i, d, ic, a, c) ==
  /\ ZeroOK(d, ic)
  /\
    \/ i <= 2
    \/ /\ i = 3 /\ ic = NoIC
       /\ \/ d.kind \in {"inc", "lag"} /\ KindsOf(a) \subseteq PlainKinds
          \/ /\ d.kind \in NewKinds
             /\ a[Vars[1]].kind \in {"neg", "negs", "negb", "alias", "palias"}
             /\ a[Vars[2]].kind \in {"const", "lag", "exo", "time", "neg", "alias"}
             /\ c[Vars[2]] = NoIC
          \/ d.kind = "time" /\ "quo" \in KindsOf(a)       \* slice C, see above

(* thorough: every system over 3 variables of the kinds of slice A (any initial conditions) and   *)
(* every system over 3 variables of all kinds with at most one initial condition                  *)
MC_LineThorough(i, d, ic, a, c) ==
  /\ ZeroOK(d, ic)
  /\
    \/ KindsOf(a) \cup {d.kind} \subseteq OldKinds
    \/ NumICs(c) + (IF ic = NoIC THEN 0 ELSE 1) <= 1

MC_LineAny(i, d, ic, a, c) == ZeroOK(d, ic)

(* Solve slices.  The ordinary solve is always taken.  The steady-state option:                  *)
(*   quick     where the system settles AND the settled values differ from the time-zero values  *)
(*             (a non-trivial steady state) AND the reduction set a user variable aside          *)
(*   thorough  every non-trivial steady state; and where the system does not settle (both real   *)
(*             runs must then raise) the systems of the plain kinds in which the reduction set a *)
(*             user variable aside                                                               *)
NonTrivialSteady(st) == LET s == Steady(st.orig) IN s.ok /\ s.s0 # s.plain
MC_SolveQuick(ss, st)    == ~ss \/ (SeqVars(st.deco) \ {TimeVar} # {} /\ NonTrivialSteady(st))
MC_SolveThorough(ss, st) ==
    ~ss \/ LET s == Steady(st.orig)
           IN IF s.ok THEN s.s0 # s.plain
              ELSE SeqVars(st.deco) \ {TimeVar} # {} /\ ~HasKind(st, NewKinds)
MC_SolveAny(ss, st)      == TRUE

(* Second blocks on the same solver objects (after an ordinary solve of the first).                *)
(*   quick     first blocks of 1 or 2 variables: the literal of a SET-ASIDE equation changes; or a *)
(*             variable  u + 1  is added to a block in which the reduction set no user variable    *)
(*             aside (decorative variables where the first block had none)                         *)
(*   thorough  (instance `blocks`) also the literal of any equation; added  u + 1 , alias or lag     *)
UserDeco(st) == SeqVars(st.deco) \ {TimeVar}
MC_EditQuick(ed, st) ==
    /\ st.solve = "plain" /\ NOrigOf(st) <= 2
    /\ \/ ed.op = "recoef" /\ ed.var \in SeqVars(st.deco)
       \/ ed.op = "extend" /\ ed.def.kind = "inc" /\ ed.ic = NoIC /\ UserDeco(st) = {}
MC_EditThorough(ed, st) ==
    /\ st.solve = "plain" /\ NOrigOf(st) <= 2
    /\ \/ ed.op = "recoef"
       \/ ed.op = "extend" /\ ed.def.kind \in {"inc", "alias", "lag"} /\ ed.ic = NoIC
MC_LineTwo(i, d, ic, a, c) == i <= 2 /\ ZeroOK(d, ic)          \* first blocks of 1 or 2 variables (instance `blocks`)
MC_SolvePlain(ss, st) == ~ss
MC_EditNone(ed, st) == FALSE
MC_EditAny(ed, st) == TRUE

NamesOf(s) == [i \in 1..Len(s) |-> s[i].var]

Terminal == phase = "solved"
Emit == Terminal =>
    PrintT(<< "BEH", ToJson([
        ss     |-> (solve = "steady"),
        T      |-> SteadyT,
        decl   |-> DeclOf(St),
        first  |-> first,
        endo   |-> NamesOf(endo),
        deco   |-> NamesOf(deco),
        lagged |-> NamesOf(lagged),
        exo    |-> NamesOf(exo)]) >>)
=============================================================================
