SPECIFICATION Spec
CONSTANTS
  Names <- MC_NamesNarrow
  Numbers <- MC_NumbersNarrow
  Strings <- MC_StringsNone
  BinOps <- MC_OpsRoutes
  Maps <- MC_MapsRoutes
  OnePairs <- MC_PairsNone
  Routes = {"equation", "block", "shared_block", "shared_each", "cancel_first", "cancel_mid"}
  MaxUnits = 3
  MinUnits = 0
  MaxDepth = 1
  MaxActs = 1
  MaxNL = 0
  MaxLines = 1
  Signs = {"-", "+"}
  AllowCall = TRUE
  AllowList = FALSE
  AllowGroup = TRUE
  AllowLag = TRUE
INVARIANT TypeOK
INVARIANT C13_OnlyWholeNames
INVARIANT C13_Simultaneous
INVARIANT C13_ValuePreserved
INVARIANT C13_ListIsNamesInOrder
CONSTRAINT Emit
CHECK_DEADLOCK FALSE
