--------------------------- MODULE ProcessConsts ---------------------------
(* Constant values shared by the bounded instances and the trace instance of Process. *)
(* The two models and the two blocks are the ones harness/checks/c17.py builds:       *)
(*   SIM  sfc_models.gl_book.chapter3.SIM('C'): the constructor makes model, country  *)
(*        and currency zone (3 ids); the six sectors of SIM.build_model() are created *)
(*        in two parts (GOV HH BUS | TF LAB GOOD + hh.AddInitialCondition by id)      *)
(*   TWO  a two-sector model (AA | BB) whose sectors ask for each other's variable    *)
(*        names before main(), so placeholders `_<ID>__P`, `_<ID>__Q`, `_<ID>__PAY`   *)
(*        are embedded; BB has an initial condition booked by sector id and an income *)
(*        exclusion (matched by id)                                                   *)
(*   A    block without user function;  B  block that calls the user function f       *)
(*        (registered per solver with body f1 or f2); A and B share variable names     *)
EXTENDS Integers, Sequences

MC_Models  == {"SIM", "TWO"}
MC_Models0 == {}
MC_ModelsTWO == {"TWO"}
MC_ModelsSIM == {"SIM"}
MC_Blocks  == {"A", "B"}
MC_Solvers0 == {}
MC_Solvers1 == {"s1"}
MC_Solvers2 == {"s1", "s2"}
MC_LogNames == {"log", "eqn", "timeseries", "step", "steadystate_0"}
MC_Trace1 == {0}
MC_Trace2 == {0, 1}
MC_FuncBodies == {"f1", "f2"}
MC_FuncBodies1 == {"f1"}
MC_Trace3 == {0, 1, 3}

MC_Shape ==
    [SIM |-> [newIds |-> 3, headPre |-> 0, headSectors |-> 3, horizon |-> 2,
              sectors |-> << "GOV", "HH", "BUS", "TF", "LAB", "GOOD" >>,   \* one country: full code = sector code
              asks |-> {},
              byId |-> { << 2, "F" >>, << 2, "DEM_GOOD" >> },      \* hh.AddInitialCondition('F', ..); Household's income exclusion
              own |-> {"BUS__DEM_LAB", "BUS__F", "BUS__INC", "BUS__LAG_F", "BUS__PROF", "BUS__SUP_GOOD",
                       "GOOD__DEM_GOOD", "GOOD__SUP_BUS", "GOOD__SUP_GOOD", "GOV__DEM_GOOD", "GOV__F",
                       "GOV__FISC_BAL", "GOV__INC", "GOV__LAG_F", "GOV__PRIM_BAL", "GOV__T", "HH__AfterTax",
                       "HH__AlphaFin", "HH__AlphaIncome", "HH__DEM_GOOD", "HH__F", "HH__INC", "HH__LAG_F",
                       "HH__SUP_LAB", "HH__T", "LAB__DEM_LAB", "LAB__SUP_HH", "LAB__SUP_LAB", "TF__T",
                       "TF__TaxRate", "t"}],
     TWO |-> [newIds |-> 1, headPre |-> 2, headSectors |-> 1, horizon |-> 6,
              sectors |-> << "AA", "BB" >>,
              asks |-> { << 1, "P" >>, << 2, "Q" >>, << 2, "PAY" >> },
              byId |-> { << 2, "F" >>, << 2, "PAY" >> },           \* b.AddInitialCondition('F', ..); exclusion of b's PAY
              own |-> {"AA__F", "AA__INC", "AA__LAG_F", "AA__LAG_P", "AA__P", "AA__PAY", "AA__S", "AA__Z",
                       "BB__F", "BB__INC", "BB__LAG_F", "BB__PAY", "BB__Q", "BB__R", "t"}]]

(* Block bodies (equations + exogenous section) and their variants by settings lines:              *)
(*   X   MaxTime = 4                         Xc  MaxTime = 4, Err_Tolerance = 1e-3  (coarse)           *)
(*   Xf  MaxTime = 4, Err_Tolerance = 1e-11 (fine)                                                      *)
(*   X0  no settings line (horizon 0, default tolerance)   Xt  Err_Tolerance = 1e-3 only (horizon 0)    *)
(* x, LAG_x, g carry the same NAME in both bodies; x and g are defined differently                     *)
MC_Body ==
    [A |-> [vars |-> {"LAG_x", "a", "g", "n", "t", "x", "y"}, early |-> {"g"}, func |-> FALSE],
     B |-> [vars |-> {"LAG_x", "g", "t", "v", "w", "x"}, early |-> {"g"}, func |-> TRUE]]
MC_Variant(body, mt, tol) ==
    [vars |-> MC_Body[body].vars, early |-> MC_Body[body].early, func |-> MC_Body[body].func,
     horizon |-> IF mt THEN 4 ELSE 0, mtLine |-> mt, tolLine |-> (tol # "default"), tol |-> tol]
MC_BlockInfo ==
    [A  |-> MC_Variant("A", TRUE, "default"),  B  |-> MC_Variant("B", TRUE, "default"),
     Ac |-> MC_Variant("A", TRUE, "coarse"),   Bc |-> MC_Variant("B", TRUE, "coarse"),
     Af |-> MC_Variant("A", TRUE, "fine"),     Bf |-> MC_Variant("B", TRUE, "fine"),
     A0 |-> MC_Variant("A", FALSE, "default"), B0 |-> MC_Variant("B", FALSE, "default"),
     At |-> MC_Variant("A", FALSE, "coarse"),  Bt |-> MC_Variant("B", FALSE, "coarse")]
MC_BlocksQ == {"A", "Ac", "B", "B0"}                     \* quick: with / without each line, coarse vs default
MC_BlocksT == {"A", "Ac", "Af", "B", "B0", "Bc", "Bt"}   \* thorough: also fine, tolerance line without MaxTime
=============================================================================
