---------------------------- MODULE Results_Trace ----------------------------
(* Trace validation for Results: executions of the real Model.GetTimeSeries,          *)
(* EquationSolver.GenerateCSVtext and BaseSolver.CreateCsvString recorded by          *)
(* harness/checks/c16.py are folded through the actions of Results (AsFound_* FALSE). *)
(* One total verdict per trace id, printed as  kind:clause@n  (n = number of the      *)
(* event inside its trace at which the verdict was reached, 0 for ok).                *)
(*   property:<clause>  a sentence of C16 is false on the observed values; every      *)
(*                      property clause compares observations of the real objects     *)
(*                      with each other (snapshot before / after a call, value        *)
(*                      returned / series stored when it was returned, text now /     *)
(*                      text earlier from the same stored series)                     *)
(*   drift:<clause>     the code did something the spec action does not predict       *)
(*                                                                                    *)
(* Every event carries the driver's observation after the call:                       *)
(*   snap        group -> deep snapshot of the tracked stored series (small ints) and *)
(*               of every series that was not stored when the history began ("+name") *)
(*   dig         digest of the deep snapshot of all three holders, every series       *)
(*   store_same  that snapshot equals the one taken after the previous call           *)
(*   vl, vl_same BaseSolver.VariableList, and whether it equals the previous one      *)
(*   bdig, base_same  the same for the series attributes of the BaseSolver object     *)
EXTENDS Results, Json, IOUtils

Log == ndJsonDeserialize(IOEnv.TRACE_FILE)

VARIABLES l,         \* next line of the log
          n,         \* number of the event inside the current trace
          verdict,
          obs,       \* the observation made after the previous call
          seenG,     \* observed retrievals: [key, dig, out]  (out = [ok, exc, ret])
          seenT      \* observed renderings: [key, dig, tdig]
tvars == << vars, l, n, verdict, obs, seenG, seenT >>

Ok == [kind |-> "ok", clause |-> "", at |-> 0]
Rank(v) == CASE v.kind = "ok" -> 0 [] v.kind = "drift" -> 1 [] v.kind = "property" -> 2
Worse(a, b) == IF Rank(b) > Rank(a) THEN b ELSE a     \* keeps the first of equal rank
Prop(c) == [kind |-> "property", clause |-> c, at |-> n + 1]
Drift(c) == [kind |-> "drift", clause |-> c, at |-> n + 1]

NoObs == [snap |-> InitStore, dig |-> "", vl |-> << >>, bdig |-> ""]
ObsOf(e) == [snap |-> e.snap, dig |-> e.dig, vl |-> e.vl, bdig |-> e.bdig]

(* C16_ReadsArePure on observations: nothing stored differs from before the call *)
Pure(e) == /\ e.store_same /\ e.vl_same /\ e.base_same
           /\ e.snap = obs.snap /\ e.vl = obs.vl
           /\ e.dig = obs.dig /\ e.bdig = obs.bdig

GetKey(e) == [grp |-> e.grp, name |-> e.name, c |-> EffCut(e.c, cutoff), sup |-> suppress]
Outcome(e) == [ok |-> e.ok, exc |-> e.exc, ret |-> e.ret]

(* e.stored: the name was a key of the group's holder just before the call (observed).  *)
(* A retrieval of a name that is not stored is judged as a read (pure, repeatable: it   *)
(* fails the same way each time); that it fails with KeyError is what the spec action   *)
(* predicts, not something the property text fixes -> conformance.                      *)
JudgeGet(e) ==
    IF ~Pure(e) THEN Prop("C16_ReadsArePure")
    ELSE IF e.stored /\ (~e.ok \/ e.ret # GetExpect(obs.snap[e.grp][e.name], EffCut(e.c, cutoff), suppress))
         THEN Prop("C16_GetValue")
    ELSE IF \E g \in seenG : g.key = GetKey(e) /\ g.dig = obs.dig /\ g.out # Outcome(e)
         THEN Prop("C16_Repeatable")
    ELSE IF ~e.stored /\ (e.ok \/ e.exc # "KeyError") THEN Drift("get_missing_keyerror")
    ELSE IF e.stored # last'.found THEN Drift("get_found_as_spec")
    ELSE IF e.snap # store' THEN Drift("store_as_spec")
    ELSE IF e.ret # last'.vals THEN Drift("get_as_spec")
    ELSE Ok

JudgeNames(e) ==
    IF ~Pure(e) THEN Prop("C16_ReadsArePure")
    ELSE IF ~e.ok THEN Drift("names_ok")
    ELSE IF { e.names[k] : k \in 1..Len(e.names) } # DOMAIN store[e.grp] \/ Len(e.names) # Cardinality(DOMAIN store[e.grp])
         THEN Drift("names_as_spec")
    ELSE Ok

JudgeMutate(e) ==
    IF ~Pure(e) THEN Prop("C16_ReadsArePure")
    ELSE IF e.snap # store' THEN Drift("store_as_spec")
    ELSE Ok

(* e.fresh_ok / e.fresh_same (RenderTable only; TRUE for BaseCsv): the driver renders a NEW holder that   *)
(* holds copies of the same series - a second execution of the real code on the same stored series, with  *)
(* no call history.  "The same stored series always give the same text": the text must be that one.       *)
JudgeText(e, key, srcdig, predicted) ==
    IF ~Pure(e) THEN Prop("C16_ReadsArePure")
    ELSE IF ~e.ok THEN (IF e.fresh_ok THEN Prop("C16_Repeatable") ELSE Drift("render_ok"))
    ELSE IF ~e.fresh_same THEN Prop("C16_Repeatable")
    ELSE IF \E f \in seenT : f.key = key /\ f.dig = srcdig /\ f.tdig # e.tdig
         THEN Prop("C16_Repeatable")
    ELSE IF e.cols # predicted.cols THEN Drift("text_cells")
    ELSE IF predicted.hdr # << >> /\ e.hdr # predicted.hdr THEN Drift("text_header")
    ELSE Ok

TraceInit == Init /\ l = 1 /\ n = 0 /\ verdict = Ok /\ obs = NoObs /\ seenG = {} /\ seenT = {}

TraceNext ==
    /\ l <= Len(Log)
    /\ l' = l + 1
    /\ LET e == Log[l] IN
       \/ /\ e.ev = "Init"
          /\ Reset(e.snap, e.vl, e.maxtime)
          /\ obs' = ObsOf(e)
          /\ n' = 1 /\ verdict' = Ok /\ seenG' = {} /\ seenT' = {}
       \/ /\ e.ev = "Get"
          /\ Get(e.grp, e.name, e.c)
          /\ verdict' = Worse(verdict, JudgeGet(e))
          /\ seenG' = seenG \cup { [key |-> GetKey(e), dig |-> obs.dig, out |-> Outcome(e)] }
          /\ obs' = ObsOf(e) /\ n' = n + 1 /\ UNCHANGED seenT
       \/ /\ e.ev = "MutateHeld"
          /\ MutateHeld(e.i, e.op)
          /\ verdict' = Worse(verdict, JudgeMutate(e))
          /\ obs' = ObsOf(e) /\ n' = n + 1 /\ UNCHANGED << seenG, seenT >>
       \/ /\ e.ev = "SetSuppress"
          /\ SetSuppress(e.b)
          /\ obs' = ObsOf(e) /\ n' = n + 1 /\ UNCHANGED << verdict, seenG, seenT >>
       \/ /\ e.ev = "SetCutoff"
          /\ SetCutoff(e.c)
          /\ obs' = ObsOf(e) /\ n' = n + 1 /\ UNCHANGED << verdict, seenG, seenT >>
       \/ /\ e.ev = "GetNames"
          /\ GetNames(e.grp)
          /\ verdict' = Worse(verdict, JudgeNames(e))
          /\ obs' = ObsOf(e) /\ n' = n + 1 /\ UNCHANGED << seenG, seenT >>
       \/ /\ e.ev = "Replace"
          /\ Replace(e.name, e.op)
          /\ verdict' = Worse(verdict, IF e.snap # store' THEN Drift("store_as_spec") ELSE Ok)
          /\ obs' = ObsOf(e) /\ n' = n + 1 /\ UNCHANGED << seenG, seenT >>
       \/ /\ e.ev = "Reinsert"
          /\ Reinsert(e.name)
          /\ verdict' = Worse(verdict, IF e.snap # store' THEN Drift("store_as_spec") ELSE Ok)
          /\ obs' = ObsOf(e) /\ n' = n + 1 /\ UNCHANGED << seenG, seenT >>
       \/ /\ e.ev = "SetMaxTime"
          /\ SetMaxTime(e.c)
          /\ obs' = ObsOf(e) /\ n' = n + 1 /\ UNCHANGED << verdict, seenG, seenT >>
       \/ /\ e.ev = "Extend"
          /\ Extend(e.name)
          /\ verdict' = Worse(verdict, IF e.snap # store' THEN Drift("store_as_spec") ELSE Ok)
          /\ obs' = ObsOf(e) /\ n' = n + 1 /\ UNCHANGED << seenG, seenT >>
       \/ /\ e.ev = "RenderTable"
          /\ RenderTable(e.grp, e.fmt)
          /\ verdict' = Worse(verdict, JudgeText(e, e.grp \o ":" \o e.fmt, obs.dig, RenderOp(store[e.grp], e.fmt)))
          /\ seenT' = seenT \cup { [key |-> e.grp \o ":" \o e.fmt, dig |-> obs.dig, tdig |-> e.tdig] }
          /\ obs' = ObsOf(e) /\ n' = n + 1 /\ UNCHANGED seenG
       \/ /\ e.ev = "BaseCsv"
          /\ BaseCsv
          /\ verdict' = Worse(verdict, JudgeText(e, "base", obs.bdig, BaseCsvOp(varlist).text))
          /\ seenT' = seenT \cup { [key |-> "base", dig |-> obs.bdig, tdig |-> e.tdig] }
          /\ obs' = ObsOf(e) /\ n' = n + 1 /\ UNCHANGED seenG
       \/ /\ e.ev = "End"
          /\ PrintT(<< "VERDICT", e.tid,
                       verdict.kind \o ":" \o verdict.clause \o "@" \o ToString(verdict.at) >>)
          /\ Reset(InitStore, << >>, DefaultMaxTime)
          /\ obs' = NoObs /\ n' = 0 /\ verdict' = Ok /\ seenG' = {} /\ seenT' = {}

TraceSpec == TraceInit /\ [][TraceNext]_tvars

AllConsumed == TLCGet("stats").diameter - 1 = Len(Log)
=============================================================================
