----------------------------- MODULE MC_Solver -----------------------------
(* Bounded instances of Solver and behaviour emission.                       *)
EXTENDS Solver, Json

ASSUME JumpIsIteratedSweep
MC_AllSweeps == SweepOutcomes
MC_AllDeco == DecoOutcomes
MC_BothBig == BOOLEAN
MC_RetrySweeps == {"converge", "notyet", "everr_le", "overflow"}
MC_RetryDeco == {"ok", "value_error"}
MC_SmallTol == {FALSE}

(* every maximal behaviour is printed once, as JSON, for the replay driver *)
Terminal == status \in Raised \cup {"done"}
Emit == Terminal =>
          PrintT(<< "BEH", ToJson([periods |-> hist, final |-> status, cap |-> Cap, horizon |-> Horizon]) >>)
=============================================================================
