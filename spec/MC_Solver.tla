----------------------------- MODULE MC_Solver -----------------------------
(* Bounded instances of Solver and behaviour emission.                       *)
EXTENDS Solver, Json

ASSUME JumpIsIteratedSweep

(* every maximal behaviour is printed once, as JSON, for the replay driver *)
Terminal == status \in Raised \cup {"done"}
Emit == Terminal =>
          PrintT(<< "BEH", ToJson([periods |-> hist, final |-> status, cap |-> Cap, horizon |-> Horizon, big |-> big]) >>)
=============================================================================
