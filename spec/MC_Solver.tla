----------------------------- MODULE MC_Solver -----------------------------
(* Bounded instances of Solver and behaviour emission.                       *)
EXTENDS Solver, Json

ASSUME JumpIsIteratedSweep
MC_AllSweeps == SweepOutcomes \ {"approx"}        \* "approx" is explored by MC_Solver_zero.cfg
MC_ZeroSweeps == {"converge", "notyet", "approx", "everr_le"}
MC_OkOnly == {"ok"}
MC_NoZero == {FALSE}
MC_BothZero == BOOLEAN
MC_AllDeco == DecoOutcomes
MC_BothBig == BOOLEAN
MC_RetrySweeps == {"converge", "notyet", "everr_le", "overflow"}
MC_RetryDeco == {"ok", "value_error"}
MC_SmallTol == {FALSE}

(* every maximal behaviour is printed once, as JSON, for the replay driver *)
Terminal == status \in Raised \cup {"done"}
Emit == Terminal =>
          PrintT(<< "BEH", ToJson([periods |-> hist, final |-> status, cap |-> Cap, horizon |-> Horizon]) >>)
=============================================================================
