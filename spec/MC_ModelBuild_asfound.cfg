SPECIFICATION Spec
CONSTANTS
  Blueprints <- OneBlueprint
  AsFound_LabourDemandLate = TRUE
  AsFound_LiteralSupGood = FALSE
  AsFound_DividendsPerPayer = FALSE
  AsFound_FirstRecipient = FALSE
INVARIANT TypeOK
INVARIANT C01_SFC
INVARIANT C04_MarketsClear
INVARIANT C04_DemandersBooked
INVARIANT C05_Closed
INVARIANT C07_NumeraireValueZero
INVARIANT C07_RefusedWithoutExternal
INVARIANT C08_OrderIndependent
INVARIANT PipelineIsRunAll
INVARIANT C11_IllFormedRejected
INVARIANT C11_WellFormedBuilds
CHECK_DEADLOCK FALSE
