------------------------- MODULE MC_Process_Trace -------------------------
EXTENDS Process_Trace

MC_Models  == {"SIM", "TWO"}
MC_Blocks  == {"A", "B"}
MC_Solvers == {"s1", "s2"}
MC_LogNames == {"log", "eqn", "timeseries", "step", "steadystate_0"}
MC_TraceSteps == {0, 1, 3}
=============================================================================
