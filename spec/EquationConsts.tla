--------------------------- MODULE EquationConsts ---------------------------
(* Constant sets shared by the bounded instances and the trace instance of Equation. *)
EXTENDS Integers
Signs0 == {"", "+", "-"}
AllSignForms0 == { t \in [s1 : Signs0, br : BOOLEAN, s2 : Signs0] : t.br \/ t.s2 = "" }
MC_Leads == {
    [text |-> "",      parse |-> "opaque", coef |-> 0,  body |-> ""],
    [text |-> "y",     parse |-> "term",   coef |-> 1,  body |-> "y"],
    [text |-> "-a",    parse |-> "term",   coef |-> -1, body |-> "a"],
    [text |-> "a-b",   parse |-> "opaque", coef |-> 0,  body |-> ""],
    [text |-> "x*y",   parse |-> "term",   coef |-> 1,  body |-> "x*y"],
    [text |-> "a*b",   parse |-> "term",   coef |-> 1,  body |-> "a*b"],
    [text |-> "(x-y)", parse |-> "opaque", coef |-> 0,  body |-> ""],
    \* leading expressions whose last sign is a unary sign bound to the operator before it, or a binary one in
    \* front of a name that is added again later
    [text |-> "x*-y",  parse |-> "opaque", coef |-> 0,  body |-> ""],
    [text |-> "x/-y",  parse |-> "opaque", coef |-> 0,  body |-> ""],
    [text |-> "x--y",  parse |-> "opaque", coef |-> 0,  body |-> ""],
    [text |-> "a-y",   parse |-> "opaque", coef |-> 0,  body |-> ""],
    \* comparisons: the leading expression itself contains '=' characters
    [text |-> "(x>=6)*a", parse |-> "opaque", coef |-> 0,  body |-> ""],
    [text |-> "(x<=6)*a", parse |-> "opaque", coef |-> 0,  body |-> ""],
    [text |-> "(x==y)*a", parse |-> "opaque", coef |-> 0,  body |-> ""],
    [text |-> "(x!=y)*a", parse |-> "opaque", coef |-> 0,  body |-> ""],
    [text |-> "-(a//b)", parse |-> "opaque", coef |-> 0,  body |-> ""],
    [text |-> "-(a%b)",  parse |-> "opaque", coef |-> 0,  body |-> ""],
    [text |-> "a//b",    parse |-> "opaque", coef |-> 0,  body |-> ""],
    [text |-> "0.05*w",  parse |-> "term",   coef |-> 1,  body |-> "0.05*w"],
    [text |-> "0.025*w", parse |-> "term",   coef |-> 1,  body |-> "0.025*w"] }

MC_Bodies == {"x", "y", "x*y", "x/y", "y/x", "2", "3"}
\* every accepted two-factor shape: name*name, name/name, number*name, number/name, name/number, name*number
MC_BodiesAll == {"x", "y", "x*y", "y*x", "x/y", "y/x", "2", "3", "2*x", "6/y", "x/2", "x*2",
                 "1234567", "12345678", "100000.5"}     \* pure numbers with seven and more significant digits
MC_JoinElems == {"x", "+x", "-x", " y ", "-x*y", "+a*(b+c)", "-(x-y)", "+ 2"}

MC_SignsAll == AllSignForms0
MC_SignsFew == { [s1 |-> "",  br |-> FALSE, s2 |-> ""],
                 [s1 |-> "-", br |-> FALSE, s2 |-> ""],
                 [s1 |-> "-", br |-> TRUE,  s2 |-> "-"],
                 [s1 |-> "+", br |-> TRUE,  s2 |-> "-"] }

MC_SignsMid == { [s1 |-> "",  br |-> FALSE, s2 |-> ""],
                 [s1 |-> "-", br |-> FALSE, s2 |-> ""],
                 [s1 |-> "",  br |-> TRUE,  s2 |-> "+"],
                 [s1 |-> "-", br |-> TRUE,  s2 |-> ""],
                 [s1 |-> "-", br |-> TRUE,  s2 |-> "-"],
                 [s1 |-> "+", br |-> TRUE,  s2 |-> "-"] }
=============================================================================
