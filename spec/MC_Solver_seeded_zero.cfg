SPECIFICATION Spec
CONSTANTS
  Cap = 2
  Horizon = 2
  AsFound_NaNExitsLoop = FALSE
  AsFound_DecorativeAfterAppend = FALSE
  AsFound_NoSweepAtBigTolerance = FALSE
  MaxRetries = 0
  CapBoost = 3
  SweepAlphabet <- MC_ZeroSweeps
  DecoAlphabet <- MC_OkOnly
  BigChoices <- MC_SmallTol
  ZeroChoices <- MC_BothZero
  ZeroToleranceFallsBack = TRUE
  LaggedRecordedAtSetup = FALSE
  Hyp_NoCap = FALSE
INVARIANT TypeOK
INVARIANT C02_SolvedOnlyIfConverged
INVARIANT C02_SolvedOnlyAfterSweep
INVARIANT C11_SolvedOnlyAtRequestedTolerance
INVARIANT C02_PeriodAllOrNothing
INVARIANT C11_BoundedSweeps
INVARIANT C11_NothingSolvedAtCap
INVARIANT C11_EqualLengthsAfterFailure
INVARIANT LengthsOfSolved
PROPERTY C11_FailureRaises
PROPERTY C11_PrefixIntact
CHECK_DEADLOCK FALSE
