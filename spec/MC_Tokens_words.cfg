SPECIFICATION Spec
CONSTANTS
  Names <- MC_NamesWords
  Numbers <- MC_NumbersNarrow
  Strings <- MC_StringsNone
  BinOps <- MC_OpsArith
  Maps <- MC_MapsWordsQuick
  OnePairs <- MC_PairsWordsQuick
  Routes = {}
  MaxUnits = 3
  MinUnits = 0
  MaxDepth = 1
  MaxActs = 1
  MaxNL = 0
  MaxLines = 1
  Signs = {"-", "+"}
  AllowCall = TRUE
  AllowList = FALSE
  AllowGroup = FALSE
  AllowLag = TRUE
INVARIANT TypeOK
INVARIANT C13_OnlyWholeNames
INVARIANT C13_Simultaneous
INVARIANT C13_ValuePreserved
INVARIANT C13_ListIsNamesInOrder
CONSTRAINT Emit
CHECK_DEADLOCK FALSE
