SPECIFICATION Spec
CONSTANTS
  Alphabet <- MC_AlphaLen4
  MaxLen = 4
INVARIANT TypeOK
INVARIANT LogExConsistent
INVARIANT C06_F
INVARIANT C06_INC
INVARIANT C06_DefineOnce
CONSTRAINT Emit
CHECK_DEADLOCK FALSE
