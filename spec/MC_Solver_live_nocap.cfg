SPECIFICATION FairSpec
CONSTANTS
  Cap = 2
  Horizon = 2
  AsFound_NaNExitsLoop = FALSE
  AsFound_DecorativeAfterAppend = FALSE
  AsFound_NoSweepAtBigTolerance = FALSE
  MaxRetries = 0
  CapBoost = 3
  SweepAlphabet <- MC_AllSweeps
  DecoAlphabet <- MC_AllDeco
  BigChoices <- MC_BothBig
  ZeroChoices <- MC_NoZero
  ZeroToleranceFallsBack = FALSE
  LaggedRecordedAtSetup = FALSE
  Hyp_NoCap = TRUE
PROPERTY C11_Terminates
CHECK_DEADLOCK FALSE
