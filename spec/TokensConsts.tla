---------------------------- MODULE TokensConsts ----------------------------
(* Constant sets shared by the bounded instances and the trace instance of Tokens. *)
EXTENDS Integers, Sequences

(* names that are prefixes / suffixes of each other *)
MC_NamesWide   == {"x", "x_1", "xx", "m_x", "k"}
MC_NamesNarrow == {"x", "x_1", "xx"}
(* names that Python's float() / complex() would read as numbers (inf, nan, infinity in any  *)
(* letter case; j), next to one ordinary name                                                *)
MC_NamesWords  == {"inf", "nan", "NaN", "Infinity", "INF", "j", "x"}
MC_NamesSim    == {"x", "x_1", "xx", "m_x", "k", "inf", "NaN", "j"}
MC_NamesAll    == {"x", "x_1", "xx", "m_x", "k", "H__x", "inf", "nan", "NaN", "Infinity", "INF", "j"}

(* every literal form: integer, float, exponent (contains the letter e), hex (contains f) *)
MC_NumbersWide   == {"1", "2.5", "1e5", "0x1f"}
MC_NumbersQuick  == {"2.5", "1e5", "0x1f"}     \* the literal 1 enters through the lag suffix x(k-1)
MC_NumbersNarrow == {"2"}
MC_NumbersWords  == {"2", "1e5"}
MC_NumbersHex    == {"0x1f"}
MC_NumbersAll    == {"1", "2", "2.5", "1e5", "0x1f"}

(* string literals that contain names *)
MC_Strings1   == {"'x is x_1'"}
MC_Strings2   == {"'x is x_1'", "\"xx\""}
MC_StringsNone == {}

MC_OpsWide   == {"+", "-", "*", "/", "**", "<", "==", ">=", "="}
MC_OpsMid    == {"+", "-", "*", "**", "<", "="}
MC_OpsNarrow == {"+", "*"}
MC_OpsArith  == {"+", "-", "*"}
MC_OpsFew    == {"+", "**", "<", "="}
MC_OpsAll    == {"+", "-", "*", "/", "**", "<", "==", ">=", "=", ">", "<=", "!=", "//", "%"}

(* all partial maps on 3 names into 4 targets: 125 maps, among them the identity, swaps *)
(* (x <-> x_1), chains (x -> x_1, x_1 -> xx), 3-cycles, merges (x -> xx, x_1 -> xx)    *)
MapDom == << "x", "x_1", "xx" >>
MapTargets == {"x", "x_1", "xx", "H__x"}
Pair(a, b) == [from |-> a, to |-> b]
Kept(p) == p.to # ""
MC_MapsAll == { SelectSeq([i \in 1..3 |-> Pair(MapDom[i], f[i])], Kept) :
                  f \in [1..3 -> MapTargets \cup {""}] }

MC_MapsFew == {
    << >>,
    << Pair("x", "H__x") >>,                                       \* qualification
    << Pair("x", "xx") >>,                                         \* onto a longer name of the expression
    << Pair("xx", "x") >>,
    << Pair("x", "x_1"), Pair("x_1", "x") >>,                      \* swap
    << Pair("x_1", "xx"), Pair("xx", "x_1") >>,                    \* swap
    << Pair("x", "x_1"), Pair("x_1", "xx") >>,                     \* chain, in dict order
    << Pair("x_1", "xx"), Pair("x", "x_1") >>,                     \* chain, against dict order
    << Pair("x", "x_1"), Pair("x_1", "xx"), Pair("xx", "x") >>,    \* 3-cycle
    << Pair("x", "H__x"), Pair("x_1", "H__x") >>,                  \* merge
    << Pair("x", "xx"), Pair("x_1", "H__x"), Pair("xx", "H__x") >>,\* chain + merge
    << Pair("k", "x"), Pair("m_x", "k") >>,                        \* the lag index and a bystander
    << Pair("x", "x") >>,                                          \* identity entry alone
    << Pair("x", "H__x"), Pair("x_1", "x_1"), Pair("k", "k") >>,   \* identity entries mixed with a renaming
    << Pair("x_1", "x_1"), Pair("xx", "x"), Pair("x", "xx") >> }   \* identity entry next to a swap

MC_MapsDeep == {
    << Pair("x", "x_1"), Pair("x_1", "x") >>,                      \* swap
    << Pair("x", "x_1"), Pair("x_1", "xx") >>,                     \* chain
    << Pair("x", "x_1"), Pair("x_1", "xx"), Pair("xx", "x") >>,    \* 3-cycle
    << Pair("x", "H__x"), Pair("xx", "H__x") >> }                  \* merge

MC_MapsQuick == {
    << >>,
    << Pair("x", "H__x") >>,
    << Pair("x", "xx") >>,
    << Pair("x", "x_1"), Pair("x_1", "x") >>,
    << Pair("x", "x_1"), Pair("x_1", "xx") >>,
    << Pair("x_1", "xx"), Pair("x", "x_1") >>,
    << Pair("x", "x_1"), Pair("x_1", "xx"), Pair("xx", "x") >>,
    << Pair("x", "H__x"), Pair("x_1", "H__x") >>,
    << Pair("k", "x"), Pair("m_x", "k") >>,
    << Pair("x", "x") >>,                                          \* identity entry alone
    << Pair("x", "H__x"), Pair("x_1", "x_1"), Pair("k", "k") >> }  \* identity entries mixed with a renaming

(* numeric words as keys, as images and as bystanders *)
MC_MapsWords == {
    << >>,
    << Pair("inf", "x") >>,                                        \* word -> ordinary name
    << Pair("INF", "H__x") >>,                                     \* qualification of a word (INF = inflation)
    << Pair("x", "nan") >>,                                        \* ordinary name -> word
    << Pair("x", "xx") >>,                                         \* words are bystanders
    << Pair("nan", "x"), Pair("x", "nan") >>,                      \* swap of a word and a name
    << Pair("NaN", "nan"), Pair("nan", "NaN") >>,                  \* swap of two spellings
    << Pair("Infinity", "inf"), Pair("inf", "INF") >>,             \* chain
    << Pair("inf", "H__x"), Pair("INF", "H__x") >>,                \* merge
    << Pair("j", "x"), Pair("NaN", "j") >>,
    << Pair("nan", "nan") >>,                                      \* identity entries on numeric words
    << Pair("inf", "x"), Pair("nan", "nan"), Pair("x", "x") >> }

MC_PairsWords == { [target |-> "inf", repl |-> "x"],
                   [target |-> "nan", repl |-> "inf"],
                   [target |-> "j",   repl |-> "H__x"],
                   [target |-> "x",   repl |-> "NaN"] }
MC_PairsWordsQuick == { [target |-> "nan", repl |-> "inf"],
                        [target |-> "j",   repl |-> "H__x"] }
MC_MapsWordsQuick == {
    << Pair("inf", "x") >>,
    << Pair("INF", "H__x") >>,
    << Pair("x", "nan") >>,
    << Pair("nan", "x"), Pair("x", "nan") >>,
    << Pair("NaN", "nan"), Pair("nan", "NaN") >>,
    << Pair("Infinity", "inf"), Pair("inf", "INF") >>,
    << Pair("inf", "H__x"), Pair("INF", "H__x") >>,
    << Pair("j", "x"), Pair("NaN", "j") >>,
    << Pair("inf", "x"), Pair("nan", "nan"), Pair("x", "x") >> }   \* identity entries mixed with a renaming

(* instances with line structure (NL inside brackets, NEWLINE between complete equations) *)
MC_NamesLines == {"x", "x_1"}
MC_OpsLines   == {"+"}
MC_OpsBlocks  == {"=", "+"}
MC_NumbersNone == {}
MC_OpsLines2  == {"+", "*", "="}
MC_MapsLines == {
    << Pair("x", "H__x") >>,
    << Pair("x", "x_1"), Pair("x_1", "x") >>,                      \* swap
    << Pair("x", "x_1"), Pair("x_1", "xx") >>,                     \* chain
    << Pair("x", "x"), Pair("x_1", "H__x") >> }                    \* identity entry mixed with a renaming

(* instances that rename through Equation / EquationBlock: one- and two-factor terms (which an *)
(* Equation stores as 'simple' terms) next to everything else (stored verbatim)               *)
MC_OpsRoutes == {"*", "/", "+", "-"}
MC_MapsRoutes == {
    << Pair("x", "H__x") >>,
    << Pair("x", "x_1"), Pair("x_1", "x") >>,                      \* swap
    << Pair("x", "x_1"), Pair("x_1", "xx") >>,                     \* chain
    << Pair("x", "x"), Pair("x_1", "H__x") >> }                    \* identity entry mixed with a renaming

MC_PairsAll == [target : {"x", "x_1", "xx", "k"}, repl : MapTargets]
MC_PairsNone == {}
MC_PairsDeep == { [target |-> "x", repl |-> "xx"], [target |-> "x_1", repl |-> "x_1"] }   \* incl. an identity
MC_PairsFew == { [target |-> "x",   repl |-> "H__x"],
                 [target |-> "x",   repl |-> "xx"],
                 [target |-> "x_1", repl |-> "x"],
                 [target |-> "k",   repl |-> "x"] }
=============================================================================
