SPECIFICATION Spec
CONSTANTS
  Leads <- MC_Leads
  Bodies <- MC_Bodies
  SignForms <- MC_SignsMid
  JoinElems <- MC_JoinElems
  MaxTerms = 2
  MaxJoin = 2
  AsFound_BlobMerge = FALSE
INVARIANT TypeOK
INVARIANT C12_ValuePreserved
INVARIANT C12_RendersValid
INVARIANT C12_JoinPreservesSum
INVARIANT C12_JoinLeavesArgument
CONSTRAINT Emit
CHECK_DEADLOCK FALSE
