SPECIFICATION Spec
CONSTANTS
  InitStore <- MC_InitStore
  Asks <- MC_AsksNames
  RGroups <- MC_RMain
  VarLists <- MC_VarListsOne
  BaseStore <- MC_BaseStore
  CutArgs <- MC_CutsNone
  Fmts <- MC_FmtsOne
  MaxHist = 3
  ExtNames <- MC_ExtNone
  MaxTimes <- MC_MaxTimesNone
  NGroups <- MC_NGroupsMain
  MutOps <- MC_MutOpsAll
  Renames <- MC_RenamesXA
  Reinserts <- MC_ReinsertsNone
  AsFound_AliasWhenNoCutoff = FALSE
  AsFound_PopOnStore = FALSE
  AsFound_BaseCsvDropsT = FALSE
INVARIANT TypeOK
INVARIANT C16_GetValue
INVARIANT C16_Repeatable
PROPERTY C16_ReadsArePure
CONSTRAINT Emit
CHECK_DEADLOCK FALSE
