------------------------------ MODULE MC_Parser ------------------------------
(* Bounded instances of Parser and behaviour emission.                          *)
(*   MC_Parser_quick.cfg     all blocks of <= 3 lines over the quick alphabet    *)
(*   MC_Parser_quick2.cfg    every form of the full alphabet (every kind x       *)
(*                           comment class x spacing) as line 2, after a blank   *)
(*                           line or after the section marker                    *)
(*   MC_Parser_thorough.cfg  all blocks of <= 4 lines over the reduced alphabet  *)
(*   MC_Parser_thorough2.cfg all blocks of <= 3 lines over the middle alphabet   *)
(*   MC_Parser_quick3.cfg / thorough3.cfg  all blocks of <= 3 / <= 4 lines over  *)
(*                           the time alphabet (who defines the time axis)       *)
(*   MC_Parser_quick4.cfg / thorough4.cfg  all blocks of <= 2 / <= 3 lines over  *)
(*                           the separator alphabet (free text holding non-'\n'  *)
(*                           line-separator characters)                          *)
(*   MC_Parser_quick5.cfg / thorough5.cfg  two ParseString calls on one object:  *)
(*                           all pairs of blocks with <= 3 / <= 4 lines together *)
(*                           over the re-use alphabet                            *)
(*   MC_Parser_quick6.cfg / thorough6.cfg  all blocks of <= 2 / <= 3 lines over  *)
(*                           the continuation alphabet (free text ending in a    *)
(*                           backslash, an operator, an ellipsis ...)            *)
(*   MC_Parser_asfound.cfg   quick instance with the defect switched on          *)
EXTENDS Parser

F(k, v, r, c, s) == [kind |-> k, v |-> v, r |-> r, cc |-> c, sp |-> s]

Marker == F("marker", "", "", "none", "one")
Blank  == F("blank", "", "", "none", "one")

(* stems with exactly one '=' *)
Stems == { << "eq", "x", "y+1" >>, << "eq", "y", "0.5*x+g" >>, << "eq", "g", "[2.]*10" >>,
           << "lag1", "z", "x" >>, << "lag2", "z", "x" >>, << "lag3", "z", "x" >>,
           << "ic", "x", "3" >>, << "ic", "x", "2.5" >>,
           \* names containing digits and underscores (full names look like C1_HH2__F)
           << "ic", "x1", "3" >>, << "eq", "x1", "y+1" >>, << "lag1", "z_2", "x1" >>, << "ic", "H2__F", "2.5" >>,
           << "maxtime", "MaxTime", "3" >>, << "errtol", "Err_Tolerance", "1e-4" >>,
           << "usert", "t", "2*k" >>,
           \* the user's time axis defined on a lag line, and its lag
           << "lag1", "t", "s" >>, << "lag2", "t", "s" >>, << "lag3", "t", "s" >>,
           << "lag1", "t_minus_1", "t" >>, << "eq", "s", "t+1" >>, << "ic", "t", "2000." >>,
           << "multieq", "x", "y" >>,
           \* run parameters with a malformed value
           << "badmax", "MaxTime", "2.5" >>, << "badmax", "MaxTime", "25e-1" >>, << "badmax", "MaxTime", "0.9" >>,
           << "badmax", "MaxTime", "CAT" >>, << "badmax", "MaxTime", "inf" >>,
           << "baderr", "Err_Tolerance", "CAT" >> }

TagStems == { << "eq", "x", "y+1" >>, << "lag3", "z", "x" >>, << "ic", "x", "3" >>,
              << "maxtime", "MaxTime", "3" >>, << "errtol", "Err_Tolerance", "1e-4" >>,
              << "usert", "t", "2*k" >>, << "multieq", "x", "y" >> }

MC_FormsAll ==
    { F(st[1], st[2], st[3], c, s) : st \in Stems, c \in BaseClasses, s \in Spacings }
    \cup { F("noeq", "", "x+y", c, s) : c \in BaseClasses, s \in Spacings }
    \cup { F("comment", "", "", c, "one") : c \in BaseClasses \ {"none", "exo"} }
    \cup { F("blank", "", "", "none", s) : s \in Spacings }
    \cup { Marker }
    \* the library's own tags / markers / parameter names in the comment of every kind of line
    \cup { F(st[1], st[2], st[3], c, "one") : st \in TagStems, c \in TagClasses }
    \cup { F("noeq", "", "x+y", c, "one") : c \in TagClasses }
    \cup { F("comment", "", "", c, "one") : c \in {"pmax", "ptol"} }

MC_FirstAfter == { Marker, Blank }

(* reduced alphabet: every kind, every comment class, every spacing; the marker word  *)
(* in the comment of one form of each kind that has a comment                         *)
MC_FormsReduced == {
    F("eq", "x", "y+1", "none", "one"),
    F("eq", "x", "y+1", "exo", "tight"),
    F("eq", "y", "0.5*x+g", "eq", "wide"),
    F("lag1", "z", "x", "none", "one"),
    F("lag2", "z", "x", "hash", "tight"),
    F("lag3", "z", "x", "digits", "wide"),
    F("lag3", "z", "x", "exo", "one"),
    F("ic", "x", "3", "none", "one"),
    F("ic", "x", "2.5", "exo", "wide"),
    F("maxtime", "MaxTime", "3", "none", "tight"),
    F("maxtime", "MaxTime", "3", "exo", "one"),
    F("errtol", "Err_Tolerance", "1e-4", "plain", "tight"),
    F("errtol", "Err_Tolerance", "1e-4", "exo", "one"),
    Marker,
    F("comment", "", "", "plain", "one"),
    F("comment", "", "", "eq", "one"),
    Blank,
    F("noeq", "", "x+y", "none", "one"),
    F("noeq", "", "x+y", "exo", "wide"),
    F("multieq", "x", "y", "hash", "one"),
    F("multieq", "x", "y", "exo", "tight"),
    F("usert", "t", "2*k", "digits", "one"),
    F("usert", "t", "2*k", "exo", "tight"),
    F("ic", "x1", "3", "none", "tight"),
    F("eq", "x1", "y+1", "plain", "one"),
    F("lag1", "z_2", "x1", "none", "wide") }

(* quick: the reduced alphabet without four marker-word forms that quick2 covers line by line *)
MC_FormsQuick == MC_FormsReduced \ {
    F("maxtime", "MaxTime", "3", "exo", "one"),
    F("errtol", "Err_Tolerance", "1e-4", "exo", "one"),
    F("noeq", "", "x+y", "exo", "wide"),
    F("multieq", "x", "y", "exo", "tight") }

(* time alphabet (quick3 / thorough3): who defines the time axis - the user's t on a lag line in  *)
(* each of the three spellings, on a simultaneous line, only t_minus_1, nobody; before and after   *)
(* the section marker                                                                             *)
MC_FormsTime == {
    F("lag1", "t", "s", "none", "one"),
    F("lag2", "t", "s", "plain", "tight"),
    F("lag3", "t", "s", "digits", "wide"),
    F("lag1", "t_minus_1", "t", "none", "one"),
    F("lag3", "t_minus_1", "t", "eq", "tight"),
    F("eq", "s", "t+1", "none", "one"),
    F("ic", "t", "2000.", "none", "one"),
    F("usert", "t", "2*k", "none", "one"),
    F("lag1", "z", "x", "none", "one"),
    Marker,
    Blank,
    \* a malformed horizon / tolerance ends the call: what came before stays, what follows is not read
    F("badmax", "MaxTime", "2.5", "none", "one"),
    F("badmax", "MaxTime", "0.9", "plain", "tight"),
    F("baderr", "Err_Tolerance", "CAT", "none", "one"),
    F("maxtime", "MaxTime", "3", "none", "one") }

(* separator alphabet (quick4: <= 2 lines / thorough4: <= 3 lines; the driver spells every block  *)
(* with each of the separator characters): free text of the sep* classes behind every kind of     *)
(* line, on comment-only lines, before and after the section marker                               *)
MC_FormsSep == {
    F("eq", "x", "y+1", "sepeq", "one"),
    F("eq", "x", "y+1", "sepic", "tight"),
    F("eq", "y", "0.5*x+g", "sepexo", "wide"),
    F("eq", "q", "2*x", "sepplain", "one"),
    F("lag1", "z", "x", "sepeq", "one"),
    F("lag3", "z", "x", "sepexo", "wide"),
    F("ic", "x", "3", "sepic", "one"),
    F("ic", "z", "2.5", "sepeq", "wide"),
    F("maxtime", "MaxTime", "3", "sepexo", "tight"),
    F("errtol", "Err_Tolerance", "1e-4", "sepeq", "one"),
    F("usert", "t", "2*k", "sepic", "one"),
    F("noeq", "", "x+y", "sepeq", "one"),
    F("multieq", "x", "y", "sepexo", "one"),
    F("comment", "", "", "sepeq", "one"),
    F("comment", "", "", "sepic", "one"),
    F("comment", "", "", "sepplain", "one"),
    F("eq", "x", "y+1", "none", "one"),
    Marker,
    Blank }

(* re-use alphabet (quick5 / thorough5: two ParseString calls on one parser object, block B  *)
(* after block A; all pairs of blocks with at most MaxLines lines together): lines that put   *)
(* something into the object that a later block may lack - initial conditions, MaxTime,       *)
(* Err_Tolerance, the section marker, a user time axis, a report - and lines re-using a name  *)
MC_FormsReuse == {
    F("ic", "x", "3", "none", "one"),
    F("ic", "z", "2.5", "plain", "tight"),
    F("maxtime", "MaxTime", "3", "none", "tight"),
    F("errtol", "Err_Tolerance", "1e-4", "none", "one"),
    F("eq", "x", "y+1", "none", "one"),
    F("lag1", "z", "x", "none", "one"),
    F("usert", "t", "2*k", "none", "one"),
    F("noeq", "", "x+y", "none", "one"),
    Marker,
    F("badmax", "MaxTime", "25e-1", "none", "one") }

(* continuation alphabet (quick6: <= 2 lines / thorough6: <= 3 lines): free text of the end*   *)
(* classes behind every kind of line and on comment-only lines, and every kind of line that can *)
(* FOLLOW it (equation, lag, initial condition, run parameter, section marker, time axis)       *)
MC_FormsEnd == {
    F("eq", "x", "y+1", "endbs", "one"),
    F("lag1", "z", "x", "endbs", "tight"),
    F("ic", "x", "3", "endbs", "wide"),
    F("maxtime", "MaxTime", "3", "endbs", "one"),
    F("noeq", "", "x+y", "endbs", "one"),
    F("comment", "", "", "endbs", "one"),
    F("eq", "y", "0.5*x+g", "endop", "one"),
    F("errtol", "Err_Tolerance", "1e-4", "enddots", "tight"),
    F("comment", "", "", "enddots", "one"),
    F("eq", "q", "2*x", "none", "one"),
    F("lag3", "w", "q", "none", "one"),
    F("ic", "q", "2.5", "none", "one"),
    F("maxtime", "MaxTime", "7", "none", "tight"),
    F("usert", "t", "2*k", "none", "one"),
    Marker,
    Blank }

(* middle alphabet (thorough2): the reduced one plus second spellings *)
MC_FormsMiddle == MC_FormsReduced \cup MC_FormsTime \cup {
    F("eq", "x", "y+1", "endbs", "one"),
    F("comment", "", "", "endbs", "one"),
    F("eq", "x", "y+1", "sepeq", "one"),
    F("ic", "x", "3", "sepic", "one"),
    F("eq", "y", "0.5*x+g", "sepexo", "wide"),
    F("eq", "g", "[2.]*10", "plain", "one"),
    F("eq", "y", "0.5*x+g", "exo", "one"),
    F("eq", "x", "y+1", "hash", "wide"),
    F("lag1", "z", "x", "exo", "wide"),
    F("lag2", "z", "x", "exo", "tight"),
    F("lag2", "t", "x", "none", "one"),
    F("ic", "x", "3", "eq", "tight"),
    F("ic", "y", "2.5", "digits", "one"),
    F("maxtime", "MaxTime", "3", "eq", "wide"),
    F("errtol", "Err_Tolerance", "1e-4", "hash", "wide"),
    F("comment", "", "", "hash", "one"),
    F("comment", "", "", "digits", "one"),
    F("blank", "", "", "none", "wide"),
    F("noeq", "", "x+y", "eq", "tight"),
    F("multieq", "x", "y", "none", "wide"),
    F("usert", "t", "2*k", "none", "wide"),
    F("usert", "t", "2*k", "eq", "tight") }

(* every maximal behaviour (ParseString has returned) is printed once for the driver; *)
(* a line is coded kind|v|r|cc|sp, lines are separated by ';'                          *)
(* blocks of earlier ParseString calls on the same object are separated by '//'               *)
Code(f) == f.kind \o "|" \o f.v \o "|" \o f.r \o "|" \o f.cc \o "|" \o f.sp
RECURSIVE CodeSeq(_)
CodeSeq(h) == IF h = << >> THEN ""
              ELSE IF Len(h) = 1 THEN Code(h[1])
              ELSE Code(Head(h)) \o ";" \o CodeSeq(Tail(h))

(* (TLC's pretty-printer may wrap the tuple over two lines; harness/checks/c14.py reads  *)
(* the BEH tuples from the raw output with a multi-line pattern)                         *)
Terminal == done
RECURSIVE CodeBlocks(_)
CodeBlocks(bs) == IF bs = << >> THEN "" ELSE CodeSeq(Head(bs)) \o "//" \o CodeBlocks(Tail(bs))
Emit == Terminal => PrintT(<< "BEH", CodeBlocks(blocks) \o CodeSeq(hist) >>)
=============================================================================
