------------------------------ MODULE Reduction ------------------------------
(* sfc_models/equation_parser.py: EquationParser.ParseString (list building),          *)
(* EquationReduction = loop { FindExactMatches; MoveDecorative }, RebuildEquations,    *)
(* CleanupRightHandSide; and the meaning the solver (equation_solver.py:               *)
(* SetInitialConditions passes 1-4, _SolveStep) gives to the lists it is handed.       *)
(*                                                                                    *)
(* One action per public call / critical section:                                     *)
(*   ParseLine(x, d, ic)   one equation line (+ its optional initial-condition line)  *)
(*   EndParse              end of ParseString (adds t = k) + GenerateTokenList        *)
(*   FindExactMatches      ONE substitution of the for-loop of FindExactMatches, in   *)
(*                         list order.  The loop iterates the list self.Endogenous    *)
(*                         as it was when the call started (stale) while it rewrites  *)
(*                         AllEquations / Tokens: state `endo` is that stale list,    *)
(*                         `all` / `toks` are the rewritten dictionaries, `pos` is    *)
(*                         the loop index.                                            *)
(*   Rebuild               RebuildEquations() at the end of FindExactMatches          *)
(*   MoveDecorative        MoveDecorative() (decisions read Tokens only, which the    *)
(*                         call does not change: one step)                            *)
(*   LoopExit              the `while num_moved > 0` test of EquationReduction        *)
(*   Recoef(x) / Extend(d, ic)   ParseString() of a SECOND block on the same solver   *)
(*                         object (what Model.main() does when it is run again): the  *)
(*                         first block with the literal of one equation changed       *)
(*                         (5 -> 7, u + 1 -> u + 3, 2*u -> 4*u), or with one more     *)
(*                         variable declared.  ParseString starts from nothing: the   *)
(*                         state after it is the state a fresh object would have, and *)
(*                         the reduction loop and Solve follow as for a first block.  *)
(*   Solve(ss)             EquationSolver.SolveEquation() on the lists, under the     *)
(*                         solver option that changes what a solve does:              *)
(*                         ss = ParameterSolveInitialSteadyState (the k = 0 values    *)
(*                         are replaced by the state the system settles in with its   *)
(*                         exogenous variables frozen - CalculateInitialSteadyState)  *)
(*                                                                                    *)
(* Every action is written through a pure operator <Name>Op(st) over the state record *)
(* St; Reduction_Trace folds the same operators over what the real parser did.        *)
(*                                                                                    *)
(* Definitions are structured (no text): a record [kind, u, v, n, p]                  *)
(*   alias  u          `x = u`          palias u      `x = +u`   (leading plus)       *)
(*   const  n          `x = 5`          sum u v       `x = u + v`                     *)
(*   inc    u          `x = u + 1`      lag u         `x = u(k-1)`  (-> Lagged list)  *)
(*   exo    p          `x = [p1, ...]` in the exogenous section                       *)
(*   time              `x = k`  (the parser adds  t = k  itself)                      *)
(*   neg    u          `x = -u`   NOT an alias: FindExactMatches leaves it alone      *)
(*   negs   u          `x = - u`  negb u  `x = -(u)`   other spellings of the same;   *)
(*                     a rewriting pass of FindExactMatches removes every blank, so   *)
(*                     negs turns into neg there (Norm)                               *)
(*   self   x v        `x = 0.5*x + v`  the variable READS ITSELF (contractive): solved by *)
(*                     the sweeps to x = 2*v; its own name is a token of its equation,  *)
(*                     so MoveDecorative never sets it aside; it can never be evaluated *)
(*                     once-through (time-zero passes, decorative pass)               *)
(*   fn     u          `x = uf(u)`  a USER FUNCTION registered with AddFunction before   *)
(*                     the solve (uf(v) = 2*v + 1).  Its name is a token of the       *)
(*                     equation.  The periods k >= 1 see registered functions, the    *)
(*                     time-zero passes (3 and 4 alike) do not: there `uf` is an      *)
(*                     unknown name and the equation is stepped over.                 *)
(*   abs    u          `x = abs(u)`  a BUILTIN / math function: its name is a token of *)
(*                     the equation too, but it is a name every evaluation knows -    *)
(*                     the time-zero passes 3 and 4 included: a time-zero constant    *)
(*                     written with a function is a time-zero constant.               *)
(*   prod u v  `x = u * v`    quo u v  `x = u / v`  (divisor; systems in which the    *)
(*                     divisor is 0 in some period k >= 1 are not generated - at k = 0 *)
(*                     it may be, see Close mode "zero"; the spec reads               *)
(*                     `/` as truncating integer division - any function of the two   *)
(*                     operand values serves the invariants - and the trace spec does *)
(*                     not compare observed quotients with Sol)                       *)
(*   sq u  `x = u**2`   nsq u  `x = -u**2` (= -(u**2))   dbl u  `x = 2*u`             *)
(*   diff u v  `x = u - v`    (uses in which a textual substitution of u by a signed  *)
(*                             expression without parentheses would change the value) *)
(* Token replacement is whole-name substitution in u and v.                           *)
(*                                                                                    *)
(* Sol(sys) is the per-period meaning of such a system when it is acyclic within the  *)
(* period: period 0 by the four time-zero passes of SetInitialConditions, period      *)
(* k >= 1 by evaluating the definitions with lags taken from k-1 (the unique solution *)
(* the Jacobi sweeps terminate on with error 0), decorative definitions afterwards.   *)
(* Property C03 is stated as invariants over Sol of the current lists versus Sol of   *)
(* the lists ParseString produced.                                                    *)
EXTENDS Integers, Sequences, FiniteSets, TLC

CONSTANTS
    Vars,           \* sequence of variable names, in declaration order
    KindsAt,        \* sequence: KindsAt[i] = set of definition kinds allowed for Vars[i]
    ICsAt,          \* sequence: ICsAt[i] = set of initial-condition choices for Vars[i] (NoIC = none)
    LineOK(_, _, _, _, _),
                    \* LineOK(i, d, ic, prevDefs, prevICs): slice of the instance - may Vars[i] be declared
                    \* with definition d and initial condition ic after the lines declared so far
    ExoPaths,       \* function name -> sequence of MaxK+1 small integers
    ConstVal,       \* the integer constant used by kind "const"
    MinVars,        \* EndParse is allowed once this many variables are declared
    MaxK,           \* periods 0..MaxK are compared
    SteadyT,        \* ParameterInitialSteadyStateMaxTime used with the steady-state option; at least the
                    \* number of variables + 2, so that every chain of lags has settled by T - 1
    SolveOK(_, _),  \* SolveOK(ss, st): slice of the instance - is Solve(ss) offered in state st
    EditOK(_, _),   \* EditOK(edit, st): slice of the instance - is this second block offered after the solve st
    AsFound_SubstitutesVarWithIC
                    \* TRUE  = the pinned code: FindExactMatches substitutes away a variable that
                    \*         carries an initial condition like any other alias
                    \* FALSE = such a variable is kept (what C03 needs)

NoIC == -1
Poison == -2000000011   \* value of a name that cannot be evaluated (never read; far outside the values of the instances)
TimeVar == "t"
K == "k"
FnName == "uf"
GlobalNames == {"abs"}      \* names of the solver module's globals / builtins: tokens, never unknown

D(kind, u, v, n, p) == [kind |-> kind, u |-> u, v |-> v, n |-> n, p |-> p]
TimeDef == D("time", "", "", 0, << >>)
Entry(x, d) == [var |-> x, def |-> d]

IsAlias(d) == d.kind \in {"alias", "palias"}         \* CleanupRightHandSide(eqn) is a bare name

(* list_tokens(): the NAME tokens of a definition *)
Names(d) ==
    CASE d.kind \in {"alias", "palias", "inc", "neg", "negs", "negb", "sq", "nsq", "dbl"} -> {d.u}
      [] d.kind \in {"sum", "diff", "prod", "quo", "self"} -> {d.u, d.v}
      [] d.kind = "lag"                        -> {d.u, K}
      [] d.kind = "time"                       -> {K}
      [] d.kind = "fn"                         -> {d.u, FnName}
      [] d.kind = "abs"                        -> {d.u, "abs"}
      [] OTHER                                 -> {}

(* replace_token(eqn, x, y) *)
Subst(d, x, y) == [d EXCEPT !.u = IF @ = x THEN y ELSE @, !.v = IF @ = x THEN y ELSE @]

(* .replace(' ', '') applied to every equation by a rewriting pass *)
Norm(d) == IF d.kind = "negs" THEN [d EXCEPT !.kind = "neg"] ELSE d

Abs(a) == IF a < 0 THEN 0 - a ELSE a
TruncDiv(a, b) == IF b = 0 THEN 0
                  ELSE IF (a < 0) = (b < 0) THEN Abs(a) \div Abs(b) ELSE 0 - (Abs(a) \div Abs(b))

(* value of a definition under a valuation of names (never applied to lag / exo) *)
Den(d, val) ==
    CASE d.kind \in {"alias", "palias"} -> val[d.u]
      [] d.kind = "const"               -> d.n
      [] d.kind = "sum"                 -> val[d.u] + val[d.v]
      [] d.kind = "inc"                 -> val[d.u] + d.n
      [] d.kind = "time"                -> val[K]
      [] d.kind \in {"neg", "negs", "negb"} -> 0 - val[d.u]
      [] d.kind = "prod"                -> val[d.u] * val[d.v]
      [] d.kind = "fn"                  -> 2 * val[d.u] + 1
      [] d.kind = "abs"                 -> Abs(val[d.u])
      [] d.kind = "self"                -> 2 * val[d.v]          \* the fixed point of x = 0.5*x + v
      [] d.kind = "quo"                 -> TruncDiv(val[d.u], val[d.v])
      [] d.kind = "sq"                  -> val[d.u] * val[d.u]
      [] d.kind = "nsq"                 -> 0 - val[d.u] * val[d.u]
      [] d.kind = "dbl"                 -> d.n * val[d.u]
      [] d.kind = "diff"                -> val[d.u] - val[d.v]
      [] OTHER                          -> Poison

SeqVars(s) == { s[i].var : i \in 1..Len(s) }
EmptyFn == [x \in {} |-> 0]

----------------------------------------------------------------------------
(* Semantics of a system  sys = [endo, deco : Seq([var, def]), lagged : Seq([var, src]),  *)
(*                               exo : Seq([var, p]), ics : name -> int]                  *)
SysVars(sys) == SeqVars(sys.endo) \cup SeqVars(sys.deco) \cup SeqVars(sys.lagged) \cup SeqVars(sys.exo)

ExoOf(sys, x)  == (CHOOSE i \in 1..Len(sys.exo) : sys.exo[i].var = x)
LagOf(sys, x)  == (CHOOSE i \in 1..Len(sys.lagged) : sys.lagged[i].var = x)
HasIC(sys, x)  == x \in DOMAIN sys.ics /\ sys.ics[x] # NoIC

(* Evaluate every equation of eqs whose names are all known, repeatedly (bounded fix point). *)
(* This is at once: pass 3 / pass 4 of SetInitialConditions (`known` = time_zero_constants), *)
(* the exact limit of the Jacobi sweeps of an acyclic block, and the retry loop over the     *)
(* decorative equations.                                                                     *)
(* mode "sweep" = the equations are iterated (Jacobi sweeps), so an equation may read its own       *)
(*               variable;                                                                          *)
(*      "once"  = they are evaluated once-through (decorative pass of a period), where reading      *)
(*               oneself is a NameError;                                                            *)
(*      "zero"  = the time-zero passes 3 and 4: once-through, and an equation whose inputs are all  *)
(*               known but which fails ARITHMETICALLY (zero divisor) is stepped over like one with  *)
(*               an unknown input: its variable keeps its value and does not become a time-zero     *)
(*               constant - in the pass over the solved block and in the pass over the set-aside    *)
(*               variables alike.                                                                   *)
Fails(d, val) == d.kind = "quo" /\ val[d.v] = 0
RECURSIVE Close(_, _, _, _, _)
Close(eqs, val, known, fuel, mode) ==
    LET Needs(i) == (IF mode = "sweep" THEN Names(eqs[i].def) \ {eqs[i].var} ELSE Names(eqs[i].def)) \ GlobalNames
        ready == { i \in 1..Len(eqs) : /\ eqs[i].var \notin known
                                       /\ Needs(i) \subseteq known
                                       /\ ~(mode = "zero" /\ Fails(eqs[i].def, val)) }
    IN IF fuel = 0 \/ ready = {} THEN [val |-> val, known |-> known]
       ELSE LET got == { eqs[i].var : i \in ready }
                val2 == [x \in DOMAIN val |->
                           IF x \in got
                           THEN Den(eqs[CHOOSE i \in ready : eqs[i].var = x].def, val)
                           ELSE val[x]]
            IN Close(eqs, val2, known \cup got, fuel - 1, mode)

(* k = 0: SetInitialConditions *)
Sol0(sys) ==
    LET vars == SysVars(sys)
        exos == SeqVars(sys.exo)
        \* pass 1: initial condition or 0.; pass 2: exogenous (and k) overwrite
        v2 == [x \in vars \cup {K} |->
                 IF x = K THEN 0
                 ELSE IF x \in exos THEN sys.exo[ExoOf(sys, x)].p[1]
                 ELSE IF HasIC(sys, x) THEN sys.ics[x] ELSE 0]
        k2 == { x \in vars : HasIC(sys, x) } \cup exos \cup {K}
        r3 == Close(sys.endo, v2, k2, Len(sys.endo), "zero")          \* pass 3
        r4 == Close(sys.deco, r3.val, r3.known, Len(sys.deco), "zero")    \* pass 4
    IN r4.val

(* _SolveStep: one period, with k = kval and the exogenous variables at index ei of their paths *)
SolStep(sys, prev, kval, ei) ==
    LET vars == SysVars(sys)
        exos == SeqVars(sys.exo)
        lags == SeqVars(sys.lagged)
        base == [x \in vars \cup {K} |->
                   IF x = K THEN kval
                   ELSE IF x \in exos THEN sys.exo[ExoOf(sys, x)].p[ei]
                   ELSE IF x \in lags THEN prev[sys.lagged[LagOf(sys, x)].src]
                   ELSE Poison]
        \* (self.Functions is part of the working dictionary of a period)
        rE == Close(sys.endo, base, exos \cup lags \cup {K, FnName}, Len(sys.endo), "sweep")
        rD == Close(sys.deco, rE.val, rE.known, Len(sys.deco), "once")
    IN rD.val

(* k >= 1 of the ordinary solve *)
SolNext(sys, prev, k) == SolStep(sys, prev, k, k + 1)

RECURSIVE SolFrom(_, _, _)
SolFrom(sys, s0, k) ==      \* sequence of valuations, index k+1 = period k, period 0 given
    IF k = 0 THEN << s0 >>
    ELSE LET p == SolFrom(sys, s0, k - 1) IN Append(p, SolNext(sys, p[Len(p)], k))

SolUpTo(sys, k) == SolFrom(sys, Sol0(sys), k)

(* CalculateInitialSteadyState: a copy of the solver, exogenous variables frozen at their k = 0   *)
(* value, time axis -T..0, is solved for T periods starting from the time-zero values; every      *)
(* variable but k and t must have the same value in the last two periods (else the call raises    *)
(* NoEquilibriumError) and that value is installed as its k = 0 value.  For the integer systems   *)
(* of this module "same within 1e-4, relatively" is "same".                                       *)
RECURSIVE SteadyRun(_, _, _, _)
SteadyRun(sys, s, step, T) ==   \* s = period step-1 of the copy; result << period T-1, period T >>
    LET nxt == SolStep(sys, s, step - T, 1)
    IN IF step >= T THEN << s, nxt >> ELSE SteadyRun(sys, nxt, step + 1, T)

SteadyWith(sys, T) ==
    LET s0 == Sol0(sys)
        pr == SteadyRun(sys, s0, 1, T)
        tested == SysVars(sys) \ {TimeVar}
    IN [ok |-> \A x \in tested : pr[1][x] = pr[2][x],
        s0 |-> [x \in DOMAIN s0 |-> IF x \in tested THEN pr[2][x] ELSE s0[x]],
        plain |-> s0]

Steady(sys) == SteadyWith(sys, SteadyT)

(* the series a solve returns under option ss (with T periods of settling); << >> = the solve raises *)
SolOptWith(sys, ss, k, T) ==
    IF ~ss THEN SolUpTo(sys, k)
    ELSE LET st == SteadyWith(sys, T) IN IF st.ok THEN SolFrom(sys, st.s0, k) ELSE << >>
SolOpt(sys, ss, k) == SolOptWith(sys, ss, k, SteadyT)

(* Well-posed = closed (every name is defined) and acyclic within the period (which excludes  *)
(* in particular the alias cycles  a = b; b = a  the parser's documentation forbids and the   *)
(* reducing parser answers with 'Equality loop').  Bound of the instance, not of the code:     *)
(* squares / products and lags are not mixed, so that no value is squared once per period and  *)
(* everything stays far inside TLC's 32-bit integers; and no divisor is 0 in a period k >= 1    *)
(* the driver solves (1..Horizon), because a persistent division by zero makes both real runs   *)
(* raise.  A divisor that is 0 at k = 0 only (t, k, 2*t, an alias of t ...) IS generated.        *)
Horizon == 3
WellPosed(sys, alldefs) ==
    LET vars == SysVars(sys)
        base == [x \in vars \cup {K} |-> 0]
        r == Close(sys.endo, base, SeqVars(sys.exo) \cup SeqVars(sys.lagged) \cup {K, FnName}, Len(sys.endo), "sweep")
    IN /\ \A x \in DOMAIN alldefs : Names(alldefs[x]) \subseteq vars \cup {K, FnName} \cup GlobalNames
       /\ SeqVars(sys.endo) \subseteq r.known
       /\ (\E x \in DOMAIN alldefs : alldefs[x].kind \in {"sq", "nsq", "prod"}) => sys.lagged = << >>
       \* a self-reference is solved to within the tolerance only: keep the gain of what reads it at <= 2
       /\ (\E x \in DOMAIN alldefs : alldefs[x].kind = "self") =>
             \A x \in DOMAIN alldefs : alldefs[x].kind \notin {"sq", "nsq", "prod", "quo"}
       /\ (\E x \in DOMAIN alldefs : alldefs[x].kind = "quo") =>
             LET so == SolUpTo(sys, Horizon)
             IN \A x \in DOMAIN alldefs : alldefs[x].kind = "quo" =>
                   \A k \in 1..Horizon : so[k + 1][alldefs[x].v] # 0

----------------------------------------------------------------------------
VARIABLES phase,    \* "parse" | "find" | "move" | "loop" | "done" | "solved" | "error"
          solve,    \* option of the Solve action taken: "none" | "plain" | "steady"
          endo,     \* self.Endogenous   (stale during FindExactMatches)
          deco,     \* self.Decoration
          lagged,   \* self.Lagged       (never rewritten by the reduction)
          exo,      \* self.Exogenous
          all,      \* self.AllEquations (name -> definition)
          toks,     \* self.Tokens       (name -> set of names)
          ics,      \* self.InitialConditions (name -> int, NoIC = absent)
          pos,      \* index of the for-loop in FindExactMatches
          moved,    \* result of the last MoveDecorative
          orig,     \* the system as ParseString left it (history, for the invariants)
          blk,      \* 1 | 2: which block the solver object is working on
          first     \* the declared lines of the first block once a second one was parsed (history)

vars == << phase, solve, endo, deco, lagged, exo, all, toks, ics, pos, moved, orig, blk, first >>

NoSys == [endo |-> << >>, deco |-> << >>, lagged |-> << >>, exo |-> << >>, ics |-> EmptyFn]

St == [phase |-> phase, solve |-> solve, endo |-> endo, deco |-> deco, lagged |-> lagged, exo |-> exo, all |-> all,
       toks |-> toks, ics |-> ics, pos |-> pos, moved |-> moved, orig |-> orig, blk |-> blk, first |-> first]

Set(r) == /\ phase' = r.phase /\ solve' = r.solve /\ endo' = r.endo /\ deco' = r.deco /\ lagged' = r.lagged
          /\ exo' = r.exo /\ all' = r.all /\ toks' = r.toks /\ ics' = r.ics /\ pos' = r.pos
          /\ moved' = r.moved /\ orig' = r.orig /\ blk' = r.blk /\ first' = r.first

SysOf(st) == [endo |-> st.endo, deco |-> st.deco, lagged |-> st.lagged, exo |-> st.exo, ics |-> st.ics]

InitSt == [phase |-> "parse", solve |-> "none", endo |-> << >>, deco |-> << >>, lagged |-> << >>, exo |-> << >>,
           all |-> EmptyFn, toks |-> EmptyFn, ics |-> EmptyFn, pos |-> 0, moved |-> 0, orig |-> NoSys,
           blk |-> 1, first |-> << >>]

----------------------------------------------------------------------------
(* ParseString, one equation *)
ParseLineOp(st, x, d, ic) ==
    [st EXCEPT !.all = st.all @@ (x :> d),
               !.ics = st.ics @@ (x :> ic),
               !.lagged = IF d.kind = "lag" THEN Append(@, [var |-> x, src |-> d.u]) ELSE @,
               !.exo = IF d.kind = "exo" THEN Append(@, [var |-> x, p |-> d.p]) ELSE @,
               !.endo = IF d.kind \notin {"lag", "exo"} THEN Append(@, Entry(x, d)) ELSE @]

(* end of ParseString: no user equation for t, so  t = k  is appended; GenerateTokenList *)
EndParseOp(st) ==
    LET a == st.all @@ (TimeVar :> TimeDef)
        s == [st EXCEPT !.all = a,
                        !.ics = st.ics @@ (TimeVar :> NoIC),
                        !.endo = Append(st.endo, Entry(TimeVar, TimeDef)),
                        !.toks = [x \in DOMAIN a |-> Names(a[x])]]
    IN [s EXCEPT !.phase = "find", !.pos = 1, !.orig = SysOf(s)]

(* FindExactMatches: the entries of the stale list that trigger a substitution *)
Qualifies(st, i) ==
    /\ IsAlias(st.endo[i].def)
    /\ st.endo[i].def.u \in DOMAIN st.all
    /\ (AsFound_SubstitutesVarWithIC \/ st.ics[st.endo[i].var] = NoIC)
FindCand(st) == { i \in st.pos..Len(st.endo) : Qualifies(st, i) }
FindEnabled(st) == FindCand(st) # {}

FindStepOp(st) ==
    LET i == CHOOSE c \in FindCand(st) : \A c2 \in FindCand(st) : c <= c2
        x == st.endo[i].var
        y == st.endo[i].def.u
    IN IF IsAlias(st.all[y]) /\ st.all[y].u = x
       THEN [st EXCEPT !.phase = "error"]                       \* ValueError('Equality loop ...')
       ELSE LET a == [o \in DOMAIN st.all |-> Norm(Subst(st.all[o], x, y))]
               \* (the real pass rewrites every equation, also the unaffected ones)
            IN [st EXCEPT !.all = a,
                          !.toks = [o \in DOMAIN a |-> Names(a[o])],
                          !.pos = i + 1]

RebuildOp(st) ==
    [st EXCEPT !.endo = [i \in 1..Len(st.endo) |-> Entry(st.endo[i].var, st.all[st.endo[i].var])],
               !.phase = "move"]

Referenced(st, x) == \E o \in DOMAIN st.toks : x \in st.toks[o]

MoveOp(st) ==
    LET Keep(e) == Referenced(st, e.var)
        Gone(e) == ~Referenced(st, e.var)
        out == SelectSeq(st.endo, Gone)
    IN [st EXCEPT !.deco = @ \o out,
                  !.endo = SelectSeq(@, Keep),
                  !.moved = Len(out),
                  !.phase = "loop"]

LoopExitOp(st) ==
    IF st.moved > 0 THEN [st EXCEPT !.phase = "find", !.pos = 1] ELSE [st EXCEPT !.phase = "done"]

(* ParseString of a whole block (a sequence of [var, def, ic]) on an object in state st0 *)
RECURSIVE ParseAllOp(_, _, _)
ParseAllOp(st, decl, i) ==
    IF i > Len(decl) THEN EndParseOp(st)
    ELSE ParseAllOp(ParseLineOp(st, decl[i].var, decl[i].def, decl[i].ic), decl, i + 1)

(* the lines of the current block, in declaration order (Vars order) *)
OrigDefOf(st, x) ==
    IF x \in SeqVars(st.orig.lagged) THEN D("lag", st.orig.lagged[LagOf(st.orig, x)].src, "", 0, << >>)
    ELSE IF x \in SeqVars(st.orig.exo) THEN D("exo", "", "", 0, st.orig.exo[ExoOf(st.orig, x)].p)
    ELSE st.orig.endo[CHOOSE i \in 1..Len(st.orig.endo) : st.orig.endo[i].var = x].def
NOrigOf(st) == Len(st.orig.endo) - 1 + Len(st.orig.lagged) + Len(st.orig.exo)      \* without the parser's own t
DeclOf(st) == [i \in 1..NOrigOf(st) |-> [var |-> Vars[i], def |-> OrigDefOf(st, Vars[i]), ic |-> st.orig.ics[Vars[i]]]]

(* a second block on the same object: nothing of the first block survives ParseString *)
ReparseOp(st, declB) == [ParseAllOp(InitSt, declB, 1) EXCEPT !.blk = 2, !.first = DeclOf(st)]

RecoefDecl(decl, x) == [i \in 1..Len(decl) |-> IF decl[i].var = x THEN [decl[i] EXCEPT !.def.n = @ + 2] ELSE decl[i]]
HasLiteral(d) == d.kind \in {"const", "inc", "dbl"}

SolveOp(st, ss) == [st EXCEPT !.phase = "solved", !.solve = IF ss THEN "steady" ELSE "plain"]

HasKind(st, kinds) == \E x \in DOMAIN st.orig.endo : st.orig.endo[x].def.kind \in kinds

(* the whole of FindExactMatches / of EquationReduction, used by the trace specification *)
RECURSIVE FindAllOp(_)
FindAllOp(st) ==
    IF st.phase = "error" THEN st
    ELSE IF FindEnabled(st) THEN FindAllOp(FindStepOp(st)) ELSE RebuildOp(st)

----------------------------------------------------------------------------
Idx(x) == CHOOSE i \in 1..Len(Vars) : Vars[i] = x
NameSet == { Vars[i] : i \in 1..Len(Vars) }

Options(i) ==
    LET x == Vars[i]
        others == NameSet \ {x}
        cands ==
               { D("alias", u, "", 0, << >>) : u \in others \cup {TimeVar} }
          \cup { D("palias", u, "", 0, << >>) : u \in others }
          \cup { D("const", "", "", ConstVal, << >>) }
          \cup { D("sum", q[1], q[2], 0, << >>) : q \in { r \in others \X others : Idx(r[1]) <= Idx(r[2]) } }
          \cup { D("inc", u, "", 1, << >>) : u \in others }
          \cup { D("lag", u, "", 0, << >>) : u \in NameSet }
          \cup { D("exo", "", "", 0, ExoPaths[x]) }
          \cup { TimeDef }
          \cup { D(kd, u, "", 0, << >>) : kd \in {"neg", "negs", "negb", "sq", "nsq"}, u \in others }
          \cup { D("self", x, v, 0, << >>) : v \in others }
          \cup { D("fn", u, "", 0, << >>) : u \in others }
          \cup { D("abs", u, "", 0, << >>) : u \in others }
          \cup { D("quo", q[1], q[2], 0, << >>) : q \in { r \in others \X others : r[1] # r[2] } }
          \cup { D("prod", q[1], q[2], 0, << >>) : q \in { r \in others \X others : Idx(r[1]) < Idx(r[2]) } }
          \cup { D("dbl", u, "", 2, << >>) : u \in others }
          \cup { D("diff", q[1], q[2], 0, << >>) : q \in { r \in others \X others : r[1] # r[2] } }
    IN { d \in cands : d.kind \in KindsAt[i] }

ParseLine(x, d, ic) ==
    /\ phase = "parse"
    /\ Set(ParseLineOp(St, x, d, ic))

EndParse ==
    /\ phase = "parse"
    /\ Len(endo) + Len(lagged) + Len(exo) >= MinVars
    /\ LET s == EndParseOp(St) IN WellPosed(s.orig, s.all) /\ Set(s)

FindExactMatches == phase = "find" /\ FindEnabled(St) /\ Set(FindStepOp(St))
Rebuild          == phase = "find" /\ ~FindEnabled(St) /\ Set(RebuildOp(St))
MoveDecorative   == phase = "move" /\ Set(MoveOp(St))
LoopExit         == phase = "loop" /\ Set(LoopExitOp(St))
(* (the steady-state option is not offered with a quotient: divisors are only known to be non-zero *)
(*  in the periods of the ordinary solve; nor with a self-reference: the settling run works at a   *)
(*  tolerance of 1e-4, too coarse to read integers off its result)                                 *)
Recoef(x) ==
    /\ phase = "solved" /\ blk = 1
    /\ \E i \in 1..NOrigOf(St) : Vars[i] = x /\ HasLiteral(OrigDefOf(St, x))
    /\ EditOK([op |-> "recoef", var |-> x, def |-> OrigDefOf(St, x), ic |-> NoIC], St)
    /\ LET s == ReparseOp(St, RecoefDecl(DeclOf(St), x)) IN WellPosed(s.orig, s.all) /\ Set(s)
Extend(d, ic) ==
    /\ phase = "solved" /\ blk = 1 /\ NOrigOf(St) < Len(Vars)
    /\ EditOK([op |-> "extend", var |-> Vars[NOrigOf(St) + 1], def |-> d, ic |-> ic], St)
    /\ LET s == ReparseOp(St, Append(DeclOf(St), [var |-> Vars[NOrigOf(St) + 1], def |-> d, ic |-> ic]))
       IN WellPosed(s.orig, s.all) /\ Set(s)
Solve(ss)        == phase = "done" /\ (ss => ~HasKind(St, {"quo", "self"}) /\ blk = 1) /\ SolveOK(ss, St) /\ Set(SolveOp(St, ss))

NDeclared == Len(endo) + Len(lagged) + Len(exo)

Next == \/ /\ phase = "parse"
           /\ NDeclared < Len(Vars)
           /\ \E d \in Options(NDeclared + 1), ic \in ICsAt[NDeclared + 1] :
                 /\ LineOK(NDeclared + 1, d, ic, all, ics)
                 /\ ParseLine(Vars[NDeclared + 1], d, ic)
        \/ EndParse
        \/ FindExactMatches
        \/ Rebuild
        \/ MoveDecorative
        \/ LoopExit
        \/ \E ss \in BOOLEAN : Solve(ss)
        \/ /\ phase = "solved" /\ blk = 1
           /\ \/ \E i \in 1..Len(Vars) : Recoef(Vars[i])
              \/ /\ NOrigOf(St) < Len(Vars)
                 /\ \E d \in Options(NOrigOf(St) + 1), ic \in ICsAt[NOrigOf(St) + 1] : Extend(d, ic)

Init == /\ phase = InitSt.phase /\ solve = InitSt.solve /\ endo = InitSt.endo /\ deco = InitSt.deco /\ lagged = InitSt.lagged
        /\ exo = InitSt.exo /\ all = InitSt.all /\ toks = InitSt.toks /\ ics = InitSt.ics
        /\ pos = InitSt.pos /\ moved = InitSt.moved /\ orig = InitSt.orig
        /\ blk = InitSt.blk /\ first = InitSt.first

Spec == Init /\ [][Next]_vars

----------------------------------------------------------------------------
(* C03 *)
Reducing == phase \in {"find", "move", "loop", "done"}

SameSolutionUnder(st, ss) ==
    LET so == SolOpt(st.orig, ss, MaxK)
        sr == SolOpt(SysOf(st), ss, MaxK)
    IN /\ Len(so) = Len(sr)                        \* both raise or both return
       /\ \A i \in 1..Len(so) : \A x \in SysVars(st.orig) :
             /\ x \in DOMAIN sr[i]
             /\ sr[i][x] = so[i][x]

(* under every solver option *)
SameSolution(st) == \A ss \in BOOLEAN : SameSolutionUnder(st, ss)

Partition(st) ==
    LET e == SeqVars(st.endo)  d == SeqVars(st.deco)  l == SeqVars(st.lagged)  g == SeqVars(st.exo)
    IN /\ e \cap d = {} /\ e \cap l = {} /\ e \cap g = {} /\ d \cap l = {} /\ d \cap g = {} /\ l \cap g = {}
       /\ Cardinality(e) = Len(st.endo) /\ Cardinality(d) = Len(st.deco)       \* nothing duplicated
       /\ e \cup d \cup l \cup g = SysVars(st.orig)

(* Stated on every list the solver could be handed: after Rebuild ("move"), after MoveDecorative  *)
(* ("loop", and "done" which has the same lists).  During "find" the lists are those of the      *)
(* preceding state (only `all` / `toks` move), so nothing new is to be checked there.            *)
(* The ordinary solve is compared on every such list; the steady-state option on the lists the    *)
(* reduction ends with (MoveDecorative moved nothing), which are the ones a solver is handed.      *)
Settled == phase \in {"move", "loop"}
Final   == phase = "loop" /\ moved = 0
C03_SameSolution == /\ Settled => SameSolutionUnder(St, FALSE)
                    /\ Final => SameSolutionUnder(St, TRUE)
C03_Partition    == Reducing => Partition(St)

(* a well-posed system never makes the reducing parser raise *)
NoSpuriousLoop == phase # "error"

(* the original system is solvable by the stated semantics (no Poison anywhere) *)
OrigSolvable == (phase = "find" /\ pos = 1 /\ deco = << >>) =>
    LET so == SolUpTo(orig, MaxK) IN \A k \in 0..MaxK : \A x \in SysVars(orig) : so[k + 1][x] # Poison

TypeOK == /\ phase \in {"parse", "find", "move", "loop", "done", "solved", "error"}
          /\ solve \in {"none", "plain", "steady"}
          /\ (phase = "solved") = (solve # "none")
          /\ blk \in {1, 2} /\ (blk = 1 => first = << >>)
          /\ moved \in 0..(Len(Vars) + 1)
          /\ pos \in 0..(Len(Vars) + 2)
=============================================================================
