SPECIFICATION Spec
CONSTANTS
  Leads <- MC_Leads
  Bodies <- MC_Bodies
  SignForms <- MC_SignsAll
  JoinElems <- MC_JoinElems
  MaxTerms = 2
  MaxJoin = 2
  AsFound_BlobMerge = TRUE
INVARIANT TypeOK
INVARIANT C12_ValuePreserved
INVARIANT C12_RendersValid
INVARIANT C12_JoinPreservesSum
INVARIANT C12_JoinLeavesArgument
CHECK_DEADLOCK FALSE
