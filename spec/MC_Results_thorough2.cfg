SPECIFICATION Spec
CONSTANTS
  InitStore <- MC_InitStore
  Asks <- MC_AsksMain
  RGroups <- MC_RMain
  VarLists <- MC_VarListsAll
  BaseStore <- MC_BaseStore
  CutArgs <- MC_CutsAll
  Fmts <- MC_FmtsTwo
  MaxHist = 3
  ExtNames <- MC_ExtNone
  MaxTimes <- MC_MaxTimesNone
  NGroups <- MC_NGroupsNone
  MutOps <- MC_MutOpsTwo
  Renames <- MC_RenamesNone
  Reinserts <- MC_ReinsertsNone
  AsFound_AliasWhenNoCutoff = FALSE
  AsFound_PopOnStore = FALSE
  AsFound_BaseCsvDropsT = FALSE
INVARIANT TypeOK
INVARIANT C16_GetValue
INVARIANT C16_Repeatable
PROPERTY C16_ReadsArePure
CONSTRAINT Emit
CHECK_DEADLOCK FALSE
