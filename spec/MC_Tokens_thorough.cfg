SPECIFICATION Spec
CONSTANTS
  Names <- MC_NamesWide
  Numbers <- MC_NumbersWide
  Strings <- MC_Strings2
  BinOps <- MC_OpsWide
  Maps <- MC_MapsFew
  OnePairs <- MC_PairsAll
  Routes = {}
  MaxUnits = 3
  MinUnits = 0
  MaxDepth = 1
  MaxActs = 1
  MaxNL = 0
  MaxLines = 1
  Signs = {"-", "+"}
  AllowCall = TRUE
  AllowList = TRUE
  AllowGroup = TRUE
  AllowLag = TRUE
INVARIANT TypeOK
INVARIANT C13_OnlyWholeNames
INVARIANT C13_Simultaneous
INVARIANT C13_ValuePreserved
INVARIANT C13_ListIsNamesInOrder
CONSTRAINT Emit
CHECK_DEADLOCK FALSE
