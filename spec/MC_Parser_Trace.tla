--------------------------- MODULE MC_Parser_Trace ---------------------------
(* Instance for batched trace validation: no alphabet, no bound that matters. *)
EXTENDS Parser_Trace, ModelTextConsts
NoForms == {}
=============================================================================
