SPECIFICATION Spec
CONSTANTS
  Forms <- MC_AllForms
  Positions <- MC_AllPositions
  Sources <- MC_QuickSources
  AllowIC = TRUE
  AllowVia = FALSE
  SpliceNegated = TRUE
INVARIANT TypeOK
INVARIANT C02_IteratedSystemEquivalent

CHECK_DEADLOCK FALSE
