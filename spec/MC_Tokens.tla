----------------------------- MODULE MC_Tokens -----------------------------
(* Bounded instances of Tokens and behaviour emission.                      *)
EXTENDS Tokens, TokensConsts, Json

(* every maximal behaviour (a complete expression and MaxActs calls on it) is *)
(* printed once, as JSON, for the replay driver                              *)
Terminal == mode = "done" /\ Len(acts) = MaxActs
Emit == Terminal => PrintT(<< "BEH", ToJson([toks |-> toks, acts |-> acts, lone |-> Lone(toks)]) >>)
=============================================================================
