SPECIFICATION TraceSpec
CONSTANTS
  Leads <- MC_Leads
  Bodies = {}
  SignForms = {}
  JoinElems = {}
  MaxTerms = 1000
  MaxJoin = 0
  AsFound_BlobMerge = FALSE
POSTCONDITION AllConsumed
CHECK_DEADLOCK FALSE
