------------------------------ MODULE MC_Steps ------------------------------
(* Bounded instances of Steps: the GUI schedule over the small single-country blueprints,  *)
(* ALL orders of the per-sector commands (6! = 720 for SIM / SIMEX, 7! = 5040 for the others). *)
EXTENDS Steps, ModelBlueprints, Json

StepsQuick == {SIM}
StepsThorough == {SIM, SIMEX, SIMCAP, SIMMON, MULTI}

ASSUME PrintT(<< "BPS", ToJson(Blueprints) >>)
\* the whole family: the driver also replays the schedule of _RunAllSteps (and a few random orders) on the larger models
ASSUME PrintT(<< "ALLBPS", ToJson(AllBlueprints) >>)

(* every maximal behaviour once: the blueprint and the order in which the commands were taken *)
Emit == Terminal =>
          PrintT(<< "BEH", ToJson([name |-> bp.name, order |-> ran, phase |-> phase, err |-> st.err]) >>)
=============================================================================
