-------------------------------- MODULE Names --------------------------------
(* Sector.GetVariableName and the life of placeholder names (property C05).             *)
(*                                                                                      *)
(* Before Model.main() has generated full sector codes, GetVariableName hands out a     *)
(* temporary alias _<ID>__<var> and registers it with the model; afterwards it returns  *)
(* the canonical name.  The caller then embeds the name somewhere.  main() runs          *)
(* FullCodes -> Generate -> FixAliases -> ... -> FinalEquations; FixAliases must rewrite *)
(* every place a placeholder may have been embedded in.                                 *)
EXTENDS Integers, Sequences, FiniteSets, TLC

CONSTANTS Vars,                    \* variables whose names may be requested: pairs <<sector, local>>
          Places,                  \* where a returned name can be embedded
          MaxRequests,
          AsFound_GlobalNotFixed   \* TRUE: FixAliases rewrites sector equation blocks only

\* places: "sector_eq" (blob equation of a sector), "term" (non-blob product term added with AddTermToEquation),
\*         "supplier_rule" (allocation expression of a market), "global" (AddGlobalEquation),
\*         "own_generate" (a user-defined sector keeps the name and writes it into one of its own equations when its
\*         _GenerateEquations runs, i.e. after FullCodes and before FixAliases)
InSectorBlock(p) == p \in {"sector_eq", "term", "supplier_rule", "own_generate"}

VARIABLES phase,      \* "construct" | "coded" | "fixed" | "final"
          aliases,    \* placeholders registered with the model: set of Vars
          embedded,   \* sequence of [place, var, placeholder: BOOLEAN] - what was written where
          emitted,    \* the same after the pipeline: what the final equations contain
          asked       \* history: the requests as they were made (embedded is rewritten by FixAliases)
vars == << phase, aliases, embedded, emitted, asked >>

Init == phase = "construct" /\ aliases = {} /\ embedded = << >> /\ emitted = << >> /\ asked = << >>

(* GetVariableName(v) followed by embedding the returned name in place p *)
RequestAndEmbed(v, p) ==
    /\ phase \in {"construct", "coded"}
    /\ Len(embedded) < MaxRequests
    /\ LET ph == (phase = "construct")
       IN /\ aliases' = IF ph THEN aliases \cup {v} ELSE aliases
          /\ embedded' = Append(embedded, [place |-> p, var |-> v, placeholder |-> ph])
          /\ asked' = Append(asked, [place |-> p, var |-> v, placeholder |-> ph])
    /\ UNCHANGED << phase, emitted >>

FullCodes == phase = "construct" /\ phase' = "coded" /\ UNCHANGED << aliases, embedded, emitted, asked >>

FixOne(e) == IF e.placeholder /\ e.var \in aliases /\ (InSectorBlock(e.place) \/ ~AsFound_GlobalNotFixed)
             THEN [e EXCEPT !.placeholder = FALSE] ELSE e
FixAliasesOp(es) == [i \in 1..Len(es) |-> FixOne(es[i])]

FixAliases == /\ phase = "coded" /\ phase' = "fixed"
              /\ embedded' = FixAliasesOp(embedded)
              /\ UNCHANGED << aliases, emitted, asked >>

FinalEquations == /\ phase = "fixed" /\ phase' = "final"
                  /\ emitted' = embedded
                  /\ UNCHANGED << aliases, embedded, asked >>

Next == \/ \E v \in Vars, p \in Places : RequestAndEmbed(v, p)
        \/ FullCodes \/ FixAliases \/ FinalEquations
Spec == Init /\ [][Next]_vars

C05_NoPlaceholder == phase = "final" => \A i \in 1..Len(emitted) : ~emitted[i].placeholder
(* a name requested after full codes exist is never a placeholder *)
C05_CanonicalAfterCodes == \A i \in 1..Len(embedded) :
                              (embedded[i].placeholder => embedded[i].var \in aliases)
=============================================================================
