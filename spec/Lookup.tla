------------------------------- MODULE Lookup -------------------------------
(* EXTENSION specification (beyond the listed properties; wired into the thorough     *)
(* tier of C18): how the objects of one sfc_models Model are found again, and how     *)
(* countries fall into currency zones (models.py: Model, Country, Region,             *)
(* CurrencyZone; sector.py: Sector).                                                  *)
(*                                                                                    *)
(*   countries   Model.CountryList in creation order: [code, cur, region, id]          *)
(*   sectors     every Sector in creation order: [cc (code of its country), code, id,  *)
(*               full (Sector.FullCode as stored: "" until generated)]                 *)
(*   zones       Model.CurrencyZoneList in creation order: [cur, members (country      *)
(*               codes in the order they were fitted in), id]                          *)
(*   defaultCur  Model.DefaultCurrency                                                 *)
(*   generated   full codes were generated at least once                               *)
(*   nextId      EconomicObject.ID (every constructor call takes one id, also one that *)
(*               ends in LogicError; a new zone takes the id after its first country)  *)
(*                                                                                    *)
(* One action per public call:                                                        *)
(*   NewCountry(code, cur)   Country(model, code, currency=cur)   ("none": the code)   *)
(*   NewRegion(code, cur)    Region(model, code, currency=cur)    ("none": the model's *)
(*                           DefaultCurrency = currency of the country added last)     *)
(*   NewSector(cc, code)     Sector(model[cc], code)                                   *)
(*   GenerateFullCodes       Model._GenerateFullSectorCodes() (what main() and         *)
(*                           LogInfo() call; its docstring states the rule)            *)
(*   Query(q)                one of the look-ups below; changes nothing                *)
(* A duplicate country code / a duplicate sector code within a country raises          *)
(* LogicError and leaves the model as it was.                                          *)
(*                                                                                    *)
(* Queries  q = [k, cc, code, n, m]:                                                   *)
(*   ModelGet      model[code]                     country | KeyError                  *)
(*   ModelHas      code in model                   bool                                *)
(*   ModelHasObj   countries[n] in model           bool                                *)
(*   CountryGet    model[cc][code]                 sector | KeyError                   *)
(*   CountryHas    code in model[cc]               bool                                *)
(*   CountryHasObj sectors[n] in model[cc]         bool                                *)
(*   Lookup        model[cc].LookupSector(code)    sector | KeyError                   *)
(*   LookupId      model[cc].LookupSector(n)       (n an int) sector | KeyError        *)
(*   LookupFull    model[cc].LookupSector(code, is_full_code=True)                     *)
(*   ModelLookup   model.LookupSector(code)        (full code) sector | KeyError       *)
(*   ZoneLookup    <zone of currency cc>.LookupSector(code)  sector | LogicError when   *)
(*                 absent or when several sectors of the zone carry the short code     *)
(*   Shared        sectors[n].IsSharedCurrencyZone(sectors[m])   bool                  *)
(*   ZoneSectors   <zone of currency cc>.GetSectors()            list                  *)
(* Answer(s, q) follows the code (scan in list order, first hit); the invariants say    *)
(* what the answers mean.  The operators *Op and Answer are the single source of truth; *)
(* Lookup_Trace uses the same definitions.                                              *)
EXTENDS Integers, Sequences, FiniteSets, TLC

CONSTANTS
    CountryCodes,       \* codes NewCountry / NewRegion are tried with
    Currencies,         \* explicit currencies ("none" is always tried)
    SectorCodes,        \* codes NewSector is tried with
    InitialDefault,     \* Model.DefaultCurrency of a new model ("LOCAL")
    AbsentCode,         \* a code that is never declared (queries)
    MaxHist, MaxCountries, MaxSectors, MaxQueries

First(S) == IF S = {} THEN 0 ELSE CHOOSE i \in S : \A j \in S : i <= j
SeqRange(q) == { q[i] : i \in DOMAIN q }
FullOf(cc, code) == cc \o "_" \o code

----------------------------------------------------------------------------
(* pure operators on the state record s = [countries, sectors, zones, defaultCur, generated] *)

CountryIdx(s, code) == First({ i \in DOMAIN s.countries : s.countries[i].code = code })
ZoneIdx(s, cur)     == First({ i \in DOMAIN s.zones : s.zones[i].cur = cur })
ZoneOfCountry(s, cc) == First({ i \in DOMAIN s.zones : cc \in SeqRange(s.zones[i].members) })
SectorsOf(s, cc)    == { i \in DOMAIN s.sectors : s.sectors[i].cc = cc }

(* Country.__init__ / Region.__init__ + Model._AddCountry + Model._FitIntoCurrencyZone; id = the id the object takes *)
NewCountryOp(s, code, cur, region, id) ==
    LET currency == IF cur # "none" THEN cur ELSE IF region THEN s.defaultCur ELSE code
        z == ZoneIdx(s, currency)
        c == [code |-> code, cur |-> currency, region |-> region, id |-> id]
        s1 == [s EXCEPT !.countries = Append(@, c), !.defaultCur = currency]
    IN IF CountryIdx(s, code) # 0 THEN [st |-> s, exc |-> "LogicError", used |-> 1]
       ELSE IF z # 0 THEN [st |-> [s1 EXCEPT !.zones[z].members = Append(@, code)], exc |-> "", used |-> 1]
       ELSE [st |-> [s1 EXCEPT !.zones = Append(@, [cur |-> currency, members |-> << code >>, id |-> id + 1])],
             exc |-> "", used |-> 2]

(* Sector.__init__ + Country._AddSector *)
NewSectorOp(s, cc, code, id) ==
    IF \E i \in SectorsOf(s, cc) : s.sectors[i].code = code
    THEN [st |-> s, exc |-> "LogicError", used |-> 1]
    ELSE [st |-> [s EXCEPT !.sectors = Append(@, [cc |-> cc, code |-> code, id |-> id, full |-> ""])],
          exc |-> "", used |-> 1]

GenerateOp(s) ==
    LET many == Len(s.countries) > 1
    IN [s EXCEPT !.sectors = [i \in DOMAIN s.sectors |->
                                 [s.sectors[i] EXCEPT !.full = IF many THEN FullOf(s.sectors[i].cc, s.sectors[i].code)
                                                               ELSE s.sectors[i].code]],
                 !.generated = TRUE]

----------------------------------------------------------------------------
(* answers *)
NoList == << >>
SectorAns(k)  == [r |-> "sector",  k |-> k, exc |-> "", flag |-> FALSE, list |-> NoList]
CountryAns(k) == [r |-> "country", k |-> k, exc |-> "", flag |-> FALSE, list |-> NoList]
ExcAns(x)     == [r |-> "exc",     k |-> 0, exc |-> x,  flag |-> FALSE, list |-> NoList]
BoolAns(b)    == [r |-> "bool",    k |-> 0, exc |-> "", flag |-> b,     list |-> NoList]
ListAns(q)    == [r |-> "list",    k |-> 0, exc |-> "", flag |-> FALSE, list |-> q]
NoZoneAns     == [r |-> "nozone",  k |-> 0, exc |-> "", flag |-> FALSE, list |-> NoList]
SectorOr(k, x) == IF k = 0 THEN ExcAns(x) ELSE SectorAns(k)

SectorSeqOf(s, cc) == SelectSeq([i \in 1..Len(s.sectors) |-> i], LAMBDA i : s.sectors[i].cc = cc)
RECURSIVE SectorsOfMembers(_, _)
SectorsOfMembers(s, mem) == IF mem = << >> THEN << >> ELSE SectorSeqOf(s, Head(mem)) \o SectorsOfMembers(s, Tail(mem))

(* Model.LookupSector: the countries are asked in list order, each answers with its first hit *)
ModelLookupIdx(s, full) ==
    LET cands == { i \in DOMAIN s.sectors : s.sectors[i].full = full }
        ci(i) == CountryIdx(s, s.sectors[i].cc)
    IN IF cands = {} THEN 0
       ELSE CHOOSE i \in cands : \A j \in cands : ci(i) < ci(j) \/ (ci(i) = ci(j) /\ i <= j)

Answer(s, q) ==
    CASE q.k = "ModelGet"  -> LET i == CountryIdx(s, q.code) IN IF i = 0 THEN ExcAns("KeyError") ELSE CountryAns(i)
      [] q.k = "ModelHas"  -> BoolAns(CountryIdx(s, q.code) # 0)
      [] q.k = "ModelHasObj" -> BoolAns(q.n \in DOMAIN s.countries)
      [] q.k \in {"CountryGet", "Lookup"} ->
             SectorOr(First({ i \in SectorsOf(s, q.cc) : s.sectors[i].code = q.code }), "KeyError")
      [] q.k = "CountryHas" -> BoolAns(\E i \in SectorsOf(s, q.cc) : s.sectors[i].code = q.code)
      [] q.k = "CountryHasObj" -> BoolAns(q.n \in SectorsOf(s, q.cc))
      [] q.k = "LookupId"   -> SectorOr(First({ i \in SectorsOf(s, q.cc) : s.sectors[i].id = q.n }), "KeyError")
      [] q.k = "LookupFull" -> SectorOr(First({ i \in SectorsOf(s, q.cc) : s.sectors[i].full = q.code }), "KeyError")
      [] q.k = "ModelLookup" -> SectorOr(ModelLookupIdx(s, q.code), "KeyError")
      [] q.k = "ZoneLookup" ->
             LET z == ZoneIdx(s, q.cc)
                 cands == { i \in DOMAIN s.sectors : s.sectors[i].cc \in SeqRange(s.zones[z].members) /\ s.sectors[i].code = q.code }
             IN IF z = 0 THEN NoZoneAns
                ELSE IF Cardinality(cands) = 1 THEN SectorAns(First(cands)) ELSE ExcAns("LogicError")
      [] q.k = "Shared" -> BoolAns(ZoneOfCountry(s, s.sectors[q.n].cc) = ZoneOfCountry(s, s.sectors[q.m].cc))
      [] q.k = "ZoneSectors" ->
             LET z == ZoneIdx(s, q.cc) IN IF z = 0 THEN NoZoneAns ELSE ListAns(SectorsOfMembers(s, s.zones[z].members))

Q(k, cc, code, n, m) == [k |-> k, cc |-> cc, code |-> code, n |-> n, m |-> m]

(* the queries of the bounded universe that make sense in state s (with id counter top) *)
Queries(s, top) ==
    LET ccodes == CountryCodes \cup {AbsentCode}
        scodes == SectorCodes \cup {AbsentCode}
        have   == { s.countries[i].code : i \in DOMAIN s.countries }
        fulls  == scodes \cup { FullOf(c, x) : c \in CountryCodes, x \in SectorCodes }
        curs   == Currencies \cup CountryCodes \cup {InitialDefault}
    IN { Q("ModelGet", "", c, 0, 0) : c \in ccodes } \cup { Q("ModelHas", "", c, 0, 0) : c \in ccodes }
       \cup { Q("ModelHasObj", "", "", n, 0) : n \in DOMAIN s.countries }
       \cup { Q(k, c, x, 0, 0) : k \in {"CountryGet", "CountryHas", "Lookup"}, c \in have, x \in scodes }
       \cup { Q("CountryHasObj", c, "", n, 0) : c \in have, n \in DOMAIN s.sectors }
       \cup { Q("LookupId", c, "", n, 0) : c \in have, n \in 0..top }
       \cup { Q("LookupFull", c, f, 0, 0) : c \in have, f \in fulls }
       \cup { Q("ModelLookup", "", f, 0, 0) : f \in fulls }
       \cup { Q("ZoneLookup", c, x, 0, 0) : c \in curs, x \in scodes }
       \cup { Q("Shared", "", "", n, m) : n \in DOMAIN s.sectors, m \in DOMAIN s.sectors }
       \cup { Q("ZoneSectors", c, "", 0, 0) : c \in curs }

----------------------------------------------------------------------------
VARIABLES countries, sectors, zones, defaultCur, generated, nextId, modelId,
          hist,
          last        \* ghost: the last call, its outcome and the state it started from

svars == << countries, sectors, zones, defaultCur, generated >>
vars  == << svars, nextId, modelId, hist, last >>

St == [countries |-> countries, sectors |-> sectors, zones |-> zones, defaultCur |-> defaultCur, generated |-> generated]
Becomes(s) == /\ countries' = s.countries /\ sectors' = s.sectors /\ zones' = s.zones
              /\ defaultCur' = s.defaultCur /\ generated' = s.generated

InitState == [countries |-> << >>, sectors |-> << >>, zones |-> << >>, defaultCur |-> InitialDefault, generated |-> FALSE]
NoLast == [a |-> "none", code |-> "", cur |-> "", exc |-> "", pre |-> InitState]

Init == /\ countries = << >> /\ sectors = << >> /\ zones = << >> /\ defaultCur = InitialDefault /\ generated = FALSE
        /\ modelId = 0 /\ nextId = 1                   \* Model() took id 0
        /\ hist = << >>
        /\ last = NoLast

Note(a, code, cur, cc) == /\ Len(hist) < MaxHist
                          /\ hist' = Append(hist, [a |-> a, code |-> code, cur |-> cur, cc |-> cc])

(* base = the value of the id counter the call starts from (nextId; the trace passes the observed one) *)
NewCountryAt(code, cur, region, base) ==
    LET r == NewCountryOp(St, code, cur, region, base)
        a == IF region THEN "NewRegion" ELSE "NewCountry"
    IN /\ Becomes(r.st)
       /\ nextId' = base + r.used
       /\ last' = [a |-> a, code |-> code, cur |-> cur, exc |-> r.exc, pre |-> St]
       /\ Note(a, code, cur, "")
       /\ UNCHANGED modelId

NewSectorAt(cc, code, base) ==
    LET r == NewSectorOp(St, cc, code, base)
    IN /\ CountryIdx(St, cc) # 0
       /\ Becomes(r.st)
       /\ nextId' = base + r.used
       /\ last' = [a |-> "NewSector", code |-> code, cur |-> "", exc |-> r.exc, pre |-> St]
       /\ Note("NewSector", code, "", cc)
       /\ UNCHANGED modelId

NewCountry(code, cur) == NewCountryAt(code, cur, FALSE, nextId)
NewRegion(code, cur)  == NewCountryAt(code, cur, TRUE, nextId)
NewSector(cc, code)   == NewSectorAt(cc, code, nextId)

GenerateFullCodes ==
    /\ Becomes(GenerateOp(St))
    /\ last' = [a |-> "GenerateFullCodes", code |-> "", cur |-> "", exc |-> "", pre |-> St]
    /\ Note("GenerateFullCodes", "", "", "")
    /\ UNCHANGED << nextId, modelId >>

Query(q) ==
    /\ Cardinality({ i \in DOMAIN hist : hist[i].a = "Query" }) < MaxQueries
    /\ last' = [a |-> "Query", code |-> q.code, cur |-> "", exc |-> Answer(St, q).exc, pre |-> St]
    /\ Note("Query", q.k, q.code, q.cc)
    /\ UNCHANGED << svars, nextId, modelId >>

Next ==
    \/ \E code \in CountryCodes, cur \in Currencies \cup {"none"} :
          /\ ~(Len(countries) >= MaxCountries /\ CountryIdx(St, code) = 0)
          /\ NewCountry(code, cur) \/ NewRegion(code, cur)
    \/ \E i \in DOMAIN countries, code \in SectorCodes :
          /\ ~(Len(sectors) >= MaxSectors /\ { j \in SectorsOf(St, countries[i].code) : sectors[j].code = code } = {})
          /\ NewSector(countries[i].code, code)
    \/ (sectors # << >>) /\ GenerateFullCodes
    \/ MaxQueries > 0 /\ \E q \in Queries(St, nextId) : Query(q)

Spec == Init /\ [][Next]_vars

----------------------------------------------------------------------------
(* the extension's properties *)

(* what a query's key declares *)
Declared(s, q) ==
    CASE q.k \in {"CountryGet", "Lookup", "CountryHas"} -> { i \in DOMAIN s.sectors : s.sectors[i].cc = q.cc /\ s.sectors[i].code = q.code }
      [] q.k = "LookupId"    -> { i \in DOMAIN s.sectors : s.sectors[i].cc = q.cc /\ s.sectors[i].id = q.n }
      [] q.k = "LookupFull"  -> { i \in DOMAIN s.sectors : s.sectors[i].cc = q.cc /\ s.sectors[i].full = q.code }
      [] q.k = "ModelLookup" -> { i \in DOMAIN s.sectors : s.sectors[i].full = q.code }
      [] q.k = "ZoneLookup"  -> { i \in DOMAIN s.sectors : s.sectors[i].code = q.code /\
                                     \E j \in DOMAIN s.countries : s.countries[j].code = s.sectors[i].cc /\ s.countries[j].cur = q.cc }
      [] q.k \in {"ModelGet", "ModelHas"} -> { i \in DOMAIN s.countries : s.countries[i].code = q.code }
      [] OTHER -> {}

(* each query returns the declared object, or raises the documented error class; never another object:   *)
(* a key declares at most one object (except a short code within a zone, where LogicError is documented) *)
Lookup_FindsExactlyTheDeclared ==
    \A q \in Queries(St, nextId) :
        LET a == Answer(St, q)
            d == Declared(St, q)
        IN CASE q.k \in {"CountryGet", "Lookup", "LookupId", "LookupFull", "ModelLookup"} ->
                    /\ Cardinality(d) <= 1
                    /\ IF d = {} THEN a = ExcAns("KeyError") ELSE a = SectorAns(First(d))
             [] q.k = "ModelGet" -> /\ Cardinality(d) <= 1
                                    /\ IF d = {} THEN a = ExcAns("KeyError") ELSE a = CountryAns(First(d))
             [] q.k = "ModelHas" -> a = BoolAns(d # {})
             [] q.k = "CountryHas" -> a = BoolAns(d # {})
             [] q.k = "ZoneLookup" -> IF \A j \in DOMAIN countries : countries[j].cur # q.cc THEN a = NoZoneAns
                                      ELSE IF Cardinality(d) = 1 THEN a = SectorAns(First(d)) ELSE a = ExcAns("LogicError")
             [] q.k = "Shared" -> a = BoolAns(countries[CountryIdx(St, sectors[q.n].cc)].cur = countries[CountryIdx(St, sectors[q.m].cc)].cur)
             [] q.k = "ZoneSectors" ->
                    IF \A j \in DOMAIN countries : countries[j].cur # q.cc THEN a = NoZoneAns
                    ELSE /\ a.r = "list"
                         /\ SeqRange(a.list) = { i \in DOMAIN sectors : countries[CountryIdx(St, sectors[i].cc)].cur = q.cc }
                         /\ Len(a.list) = Cardinality(SeqRange(a.list))
             [] OTHER -> TRUE

(* every country is in exactly one zone, the zone of its currency; zones list their countries in creation order *)
Zone_PartitionByCurrency ==
    /\ \A i \in DOMAIN countries :
          LET inz == { z \in DOMAIN zones : countries[i].code \in SeqRange(zones[z].members) }
          IN Cardinality(inz) = 1 /\ \A z \in inz : zones[z].cur = countries[i].cur
    /\ \A z1, z2 \in DOMAIN zones : z1 # z2 => zones[z1].cur # zones[z2].cur
    /\ \A z \in DOMAIN zones :
          /\ zones[z].members # << >>
          /\ \A a, b \in DOMAIN zones[z].members :
                a < b => (/\ CountryIdx(St, zones[z].members[a]) # 0
                          /\ CountryIdx(St, zones[z].members[a]) < CountryIdx(St, zones[z].members[b]))
          /\ \A a \in DOMAIN zones[z].members : CountryIdx(St, zones[z].members[a]) # 0

(* DefaultCurrency is the currency of the country added last; a Region without currency receives it *)
Region_DefaultCurrency ==
    /\ defaultCur = IF countries = << >> THEN InitialDefault ELSE countries[Len(countries)].cur
    /\ (last.a = "NewRegion" /\ last.cur = "none" /\ last.exc = "") => countries[Len(countries)].cur = last.pre.defaultCur
    /\ (last.a = "NewCountry" /\ last.cur = "none" /\ last.exc = "") => countries[Len(countries)].cur = last.code

(* generated full codes carry the country prefix iff the model has more than one country *)
FullCode_Rule ==
    /\ last.a = "GenerateFullCodes" =>
          \A i \in DOMAIN sectors : sectors[i].full = IF Len(countries) > 1 THEN FullOf(sectors[i].cc, sectors[i].code)
                                                     ELSE sectors[i].code
    /\ \A i \in DOMAIN sectors : sectors[i].full \in {"", sectors[i].code, FullOf(sectors[i].cc, sectors[i].code)}
    /\ ~generated => \A i \in DOMAIN sectors : sectors[i].full = ""

(* a duplicate code is refused with LogicError and nothing changes; codes and ids stay unique *)
Lookup_DuplicateRejected ==
    /\ last.exc = "LogicError" /\ last.a # "Query" => St = last.pre
    /\ \A i, j \in DOMAIN countries : i # j => countries[i].code # countries[j].code
    /\ \A i, j \in DOMAIN sectors : i # j => (sectors[i].id # sectors[j].id /\
                                              (sectors[i].cc = sectors[j].cc => sectors[i].code # sectors[j].code))

TypeOK ==
    /\ nextId \in Nat
    /\ \A i \in DOMAIN sectors : CountryIdx(St, sectors[i].cc) # 0 /\ sectors[i].id < nextId
    /\ Len(hist) <= MaxHist
=============================================================================
