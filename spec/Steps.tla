------------------------------- MODULE Steps -------------------------------
(* The experimental GUI step API of Model (models.py: _GetSteps, _GenerateEquationSteps, *)
(* _FinalSteps, _RunStep, _RunAllSteps) as an ALTERNATIVE SCHEDULE of the pipeline actions *)
(* of ModelBuild.                                                                       *)
(*                                                                                    *)
(* Model.RunSteps is a list of dicts  command name -> callable.  _RunStep(cmd) pops cmd  *)
(* from the HEAD dict, calls it, and drops the head dict once it is empty; the GUI lets   *)
(* the user take the commands of the head dict IN ANY ORDER.  The list built by _GetSteps: *)
(*   {Generate Sector Codes} {Fix Aliases} {Generate Equations} {Process Cash Flows}       *)
(*   {Process Exogenous} {Fix Aliases (Pass #2)} {Final Equations} {Solve}                  *)
(* 'Generate Equations' runs _GenerateEquationSteps, which writes one command per sector   *)
(* (key = the sector's FullCode, in GetSectors() order) into RunSteps[0] - at that moment   *)
(* the dict the command itself was just popped from - so the per-sector commands become    *)
(* the head dict and may be taken in any of the n! orders.  main() differs in two ways:    *)
(* it generates the sectors in GetSectors() order, and it fixes aliases once, after the    *)
(* sectors generated (the step list fixes them before, and again after the exogenous).     *)
(* An exception in a step empties RunSteps (the run is over).                              *)
(*                                                                                    *)
(* On the abstract state of ModelBuild a variable is a pair <<sector, local name>>, so     *)
(* both alias passes and the code generation are the identity on `st`; what the schedule   *)
(* can change is the order of the Gen(.) actions.                                          *)
(*                                                                                    *)
(* Claims:  Steps_RefinesMain         every maximal run ends in the state of main()        *)
(*          C08_StepOrderIndependent  ... and in the state of _RunAllSteps' own schedule     *)
(*                                    (the final state is a function of the blueprint, not   *)
(*                                    of the order in which the per-sector commands are taken) *)
(*          Steps_CommandsAreSectors  the per-sector commands offered correspond one-to-one  *)
(*                                    to the sectors; every sector generates exactly once     *)
EXTENDS ModelBuild

VARIABLES steps,     \* Model.RunSteps: sequence of sets of command names (the keys of each dict)
          ran,       \* the commands run so far, in order
          gen,       \* the sectors whose _GenerateEquations ran, in order
          codes      \* full sector codes exist (Sector.FullCode is '' before)
svars == << vars, steps, ran, gen, codes >>

CmdCodes == "Generate Sector Codes"
CmdFix1  == "Fix Aliases"
CmdGen   == "Generate Equations"
CmdFlows == "Process Cash Flows"
CmdExo   == "Process Exogenous"
CmdFix2  == "Fix Aliases (Pass #2)"
CmdFinal == "Final Equations"
CmdSolve == "Solve"
FixedOrder == << CmdCodes, CmdFix1, CmdGen, CmdFlows, CmdExo, CmdFix2, CmdFinal, CmdSolve >>
FixedCmds == Range(FixedOrder)
FixedSteps == [i \in 1..Len(FixedOrder) |-> {FixedOrder[i]}]      \* what _GetSteps builds

AllSectorIds(b) == 1..(NSec(b) + (IF HasExt(b) THEN 3 ELSE 0))
SectorKey(b, cd, s) == IF cd THEN FullCode(b, s) ELSE ""          \* the dict key _GenerateEquationSteps uses
SectorsOfKey(b, cd, c) == { s \in AllSectorIds(b) : SectorKey(b, cd, s) = c }
\* a dict keeps one callable per key: with colliding keys the sector assigned last wins
SectorOfCmd(b, cd, c) == LET ss == SectorsOfKey(b, cd, c) IN CHOOSE s \in ss : \A t \in ss : t <= s

(* the GUI-side state as one value, so that the trace specification folds the same operator *)
InitS(b, d) == [st    |-> LateMarkets(DeclareAll(InitialSt(b), b, d), b, NSec(b)),   \* the script, up to main()
                steps |-> FixedSteps, ran |-> << >>, gen |-> << >>, codes |-> FALSE]

(* Model._RunStep(cmd), cmd a key of the head dict *)
StepOp(S, b, d, cmd) ==
    LET popped == [S.steps EXCEPT ![1] = @ \ {cmd}]                 \* func = self.RunSteps[0].pop(command)
        S1 == [S EXCEPT !.steps = popped, !.ran = Append(@, cmd)]
        \* func()
        S2 == CASE cmd = CmdCodes -> [S1 EXCEPT !.codes = TRUE]
                [] cmd = CmdFix1  -> S1
                [] cmd = CmdGen   ->      \* for sec in GetSectors(): self.RunSteps[0][sec.FullCode] = ...
                       [S1 EXCEPT !.steps[1] = @ \cup { SectorKey(b, S.codes, s) : s \in AllSectorIds(b) }]
                [] cmd = CmdFlows -> [S1 EXCEPT !.st = CashFlowsOp(S.st, b, b.flows \o S.st.reg)]
                [] cmd = CmdExo   -> [S1 EXCEPT !.st = ExoOp(S.st, b.exo)]
                [] cmd = CmdFix2  -> S1
                [] cmd = CmdFinal -> [S1 EXCEPT !.st = FinalOp(S.st, b)]
                [] cmd = CmdSolve -> S1
                [] OTHER ->               \* a per-sector command: sec._GenerateEquationsFrontEnd
                       LET s == SectorOfCmd(b, S.codes, cmd)
                       IN [S1 EXCEPT !.st = Gen(S.st, b, d, s), !.gen = Append(@, s)]
    IN IF S2.st.err # NoErr THEN [S2 EXCEPT !.steps = << >>]          \* except: self.RunSteps = []; raise
       ELSE IF S2.steps[1] = {} THEN [S2 EXCEPT !.steps = Tail(@)]   \* if len(self.RunSteps[0]) == 0: pop(0)
       ELSE S2

(* Model._RunAllSteps: always the first key of the head dict (dicts keep insertion order, and  *)
(* _GenerateEquationSteps inserts in GetSectors() order)                                      *)
FirstKey(S, b, d) ==
    LET head == S.steps[1]
    IN IF head \cap FixedCmds # {} THEN CHOOSE c \in head \cap FixedCmds : TRUE
       ELSE LET ext == [i \in 1..(IF HasExt(b) THEN 3 ELSE 0) |-> NSec(b) + i]
                \* GetSectors() goes through the countries in creation order; the ExternalSector is a country
                order == IF b.external = "first" THEN ext \o GenOrder(b, d) ELSE GenOrder(b, d) \o ext
                idx == { i \in 1..Len(order) : SectorKey(b, S.codes, order[i]) \in head }
            IN SectorKey(b, S.codes, order[Min(idx)])
RECURSIVE RunAllStepsFrom(_, _, _)
RunAllStepsFrom(S, b, d) == IF S.steps = << >> THEN S ELSE RunAllStepsFrom(StepOp(S, b, d, FirstKey(S, b, d)), b, d)
RunAllSteps(b, d) == RunAllStepsFrom(InitS(b, d), b, d)

----------------------------------------------------------------------------
SInit == /\ bp \in Blueprints
         /\ decl = CanonOrder(bp)
         /\ phase = "steps" /\ gi = 0
         /\ LET S == InitS(bp, decl)
            IN st = S.st /\ steps = S.steps /\ ran = S.ran /\ gen = S.gen /\ codes = S.codes

Cur == [st |-> st, steps |-> steps, ran |-> ran, gen |-> gen, codes |-> codes]
Terminal == steps = << >>

RunStep(cmd) ==
    /\ ~Terminal /\ cmd \in steps[1]
    /\ LET S == StepOp(Cur, bp, decl, cmd)
       IN /\ st' = S.st /\ steps' = S.steps /\ ran' = S.ran /\ gen' = S.gen /\ codes' = S.codes
          /\ phase' = IF S.steps # << >> THEN "steps" ELSE IF S.st.err = NoErr THEN "final" ELSE "error"
    /\ UNCHANGED << bp, decl, gi >>

SNext == \E cmd \in (IF Terminal THEN {} ELSE steps[1]) : RunStep(cmd)
StepsSpec == SInit /\ [][SNext]_svars

----------------------------------------------------------------------------
(* what main() / _RunAllSteps give for each blueprint (constant-level: evaluated once) *)
MainOf == [b \in Blueprints |-> NormSt(RunAll(b, CanonOrder(b)))]
AllStepsOf == [b \in Blueprints |-> RunAllSteps(b, CanonOrder(b))]

Steps_RefinesMain ==
    Terminal => IF st.err = NoErr THEN NormSt(st) = MainOf[bp] ELSE MainOf[bp].err # NoErr

C08_StepOrderIndependent ==
    Terminal => /\ NormSt(st) = NormSt(AllStepsOf[bp].st)
                /\ Range(ran) = Range(AllStepsOf[bp].ran)

Offered == (UNION Range(steps)) \ FixedCmds           \* per-sector commands the GUI shows now
NoDup(q) == \A i, j \in 1..Len(q) : q[i] = q[j] => i = j
Steps_CommandsAreSectors ==
    /\ \A c \in Offered : Cardinality(SectorsOfKey(bp, codes, c)) = 1
    /\ NoDup(gen)
    /\ \A c \in Offered : SectorOfCmd(bp, codes, c) \notin Range(gen)
    /\ (CmdGen \in Range(ran) /\ st.err = NoErr) =>
           { SectorOfCmd(bp, codes, c) : c \in Offered } \cup Range(gen) = AllSectorIds(bp)
    /\ (Terminal /\ st.err = NoErr) => Range(gen) = AllSectorIds(bp)

(* the fixed commands are taken in the order of the list; the per-sector commands between  *)
(* 'Generate Equations' and 'Process Cash Flows'                                           *)
FixedProj(q) == SelectSeq(q, LAMBDA c : c \in FixedCmds)
Steps_Shape ==
    /\ LET f == FixedProj(ran) IN Len(f) <= Len(FixedOrder) /\ f = SubSeq(FixedOrder, 1, Len(f))
    /\ (Terminal /\ st.err = NoErr) => FixedProj(ran) = FixedOrder
    /\ gen # << >> => (CmdGen \in Range(ran) /\ codes)
    /\ CmdFlows \in Range(ran) => Len(gen) = Cardinality(AllSectorIds(bp))
    /\ phase \in {"steps", "final", "error"}
=============================================================================
