SPECIFICATION Spec
CONSTANTS
  CountryCodes = {"A", "B", "C"}
  Currencies = {"X", "A"}
  SectorCodes = {"HH"}
  InitialDefault = "LOCAL"
  AbsentCode = "NOPE"
  MaxHist = 4
  MaxCountries = 3
  MaxSectors = 2
  MaxQueries = 0
INVARIANT TypeOK
INVARIANT Lookup_FindsExactlyTheDeclared
INVARIANT Zone_PartitionByCurrency
INVARIANT Region_DefaultCurrency
INVARIANT FullCode_Rule
INVARIANT Lookup_DuplicateRejected
CHECK_DEADLOCK FALSE
CONSTRAINT Ordered
CONSTRAINT Emit
