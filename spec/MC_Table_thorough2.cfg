SPECIFICATION MCSpec
CONSTANTS
  Names <- MC_Names
  PoolOrder <- MC_Edit3
  MaxLen = 2
  MaxNames = 3
  Mode = "edit"
  MaxOps = 30
  MaxMut = 3
  MaxConds = 2
  UseOpts = TRUE
  UseBlocks = TRUE
  Axes <- MC_AxisK
  FirstKinds <- MC_KindsPlain
  TwinFormatSeq <- MC_TwinFormats
  MaxObs = 2
  MaxRagged = 0
  MaxRaggedInt = 0
  MaxExtends = 0
  Horizons <- MC_Horizons_edit
  FormatSeq <- MC_EditFormats
INVARIANT TypeOK
INVARIANT C19_Header
INVARIANT C19_RowCount
INVARIANT C19_CellIsFormattedValue
INVARIANT SolvedHolderComplete
CONSTRAINT Emit
CHECK_DEADLOCK FALSE
