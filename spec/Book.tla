-------------------------------- MODULE Book --------------------------------
(* The Godley-Lavoie difference equations of models SIM, SIMEX1 and PC, evaluated       *)
(* exactly over the rationals, independently of the framework.                          *)
(*                                                                                      *)
(*   SIM     Y = G + C,  T = theta*Y,  YD = Y - T,  C = a1*YD + a2*H(-1),  H = H(-1)+YD-C *)
(*   SIMEX1  as SIM with C = a1*YDe + a2*H(-1),  YDe = YD(-1)                            *)
(*   PC      interest I = r(-1)*B(-1);  Y = G + C;  T = theta*(Y + I);  YD = Y + I - T;   *)
(*           C = a1*YD + a2*V(-1);  V = V(-1) + YD - C;                                  *)
(*           B = V*(l0 + l1*r) - l2*YD;  M = V - B                                       *)
(*                                                                                      *)
(* One action per model period (StepOp is shared with Book_Trace).  The book's own       *)
(* accounting identities are invariants.  Property C09 says the framework's builders     *)
(* reproduce exactly these series.                                                       *)
EXTENDS Rat, Sequences, TLC

CONSTANTS Cases,      \* set of [model, a1, a2, theta, l0, l1, l2, G (seq), r (seq, index 1 = k=0), H0, YD0, B0, partial]
          Horizon

StepOp(c, k, s) ==
    \* s = [H, YD, B]: previous period's wealth, disposable income, bills.  k >= 1.
    LET G == c.G[k]
        q == RMul(c.a1, RSub(ROne, c.theta))          \* a1*(1-theta)
        denom == RSub(ROne, q)
    IN CASE c.model = "SIM" ->
              LET Y == RDiv(RAdd(G, RMul(c.a2, s.H)), denom)
                  T == RMul(c.theta, Y)
                  YD == RSub(Y, T)
                  C == RAdd(RMul(c.a1, YD), RMul(c.a2, s.H))
                  H == RAdd(s.H, RSub(YD, C))
              IN [Y |-> Y, T |-> T, YD |-> YD, C |-> C, H |-> H, B |-> RZero, M |-> H, G |-> G, I |-> RZero]
         [] c.model = "SIMEX1" ->
              LET C == RAdd(RMul(c.a1, s.YD), RMul(c.a2, s.H))
                  Y == RAdd(G, C)
                  T == RMul(c.theta, Y)
                  YD == RSub(Y, T)
                  H == RAdd(s.H, RSub(YD, C))
              IN [Y |-> Y, T |-> T, YD |-> YD, C |-> C, H |-> H, B |-> RZero, M |-> H, G |-> G, I |-> RZero]
         [] c.model = "PC" ->
              LET I == RMul(c.r[k], s.B)               \* r[k] is the rate of period k-1 (sequence index 1 = period 0)
                  Y == RDiv(RAdd(RAdd(G, RMul(q, I)), RMul(c.a2, s.H)), denom)
                  T == RMul(c.theta, RAdd(Y, I))
                  YD == RSub(RAdd(Y, I), T)
                  C == RAdd(RMul(c.a1, YD), RMul(c.a2, s.H))
                  V == RAdd(s.H, RSub(YD, C))
                  B == RSub(RMul(V, RAdd(c.l0, RMul(c.l1, c.r[k + 1]))), RMul(c.l2, YD))
              IN [Y |-> Y, T |-> T, YD |-> YD, C |-> C, H |-> V, B |-> B, M |-> RSub(V, B), G |-> G, I |-> I]

(* the stocks a run starts from.  With partial initial stocks (model PC: wealth and disposable income are stated, the *)
(* split between bills and money is left to the model) the opening bill holding is what the portfolio equation gives  *)
(* at the opening values: B0 = V0*(l0 + l1*r0) - l2*YD0                                                                *)
OpeningBills(cs) == IF cs.partial
                    THEN RSub(RMul(cs.H0, RAdd(cs.l0, RMul(cs.l1, cs.r[1]))), RMul(cs.l2, cs.YD0))
                    ELSE cs.B0
Start(cs) == [H |-> cs.H0, YD |-> cs.YD0, B |-> OpeningBills(cs)]

VARIABLES c, k, s, hist
vars == << c, k, s, hist >>

Init == /\ c \in Cases /\ k = 0 /\ hist = << >>
        /\ s = Start(c)

Step == /\ k < Horizon
        /\ LET n == StepOp(c, k + 1, s)
           IN /\ hist' = Append(hist, n)
              /\ s' = [H |-> n.H, YD |-> n.YD, B |-> n.B]
        /\ k' = k + 1
        /\ UNCHANGED c

Next == Step
Spec == Init /\ [][Next]_vars

----------------------------------------------------------------------------
(* the book's accounting identities *)
PrevH(i) == IF i = 1 THEN c.H0 ELSE hist[i - 1].H
Book_DeficitIsSaving ==          \* change in private wealth = G + interest - T  (government deficit)
    \A i \in 1..Len(hist) :
        RSub(hist[i].H, PrevH(i)) = RSub(RAdd(hist[i].G, hist[i].I), hist[i].T)
Book_IncomeIdentity == \A i \in 1..Len(hist) : hist[i].Y = RAdd(hist[i].G, hist[i].C)
Book_PortfolioAddsUp == \A i \in 1..Len(hist) : RAdd(hist[i].B, hist[i].M) = hist[i].H
Book_SavingIdentity == \A i \in 1..Len(hist) : RSub(hist[i].H, PrevH(i)) = RSub(hist[i].YD, hist[i].C)
=============================================================================
