-------------------------------- MODULE Rat --------------------------------
(* Exact rationals as normalised pairs <<num, den>> with den > 0.  TLC integers are     *)
(* 32-bit and overflow aborts the run, so instances are designed to keep values small.  *)
EXTENDS Integers

Abs(x) == IF x < 0 THEN 0 - x ELSE x
RECURSIVE Gcd(_, _)
Gcd(a, b) == IF b = 0 THEN a ELSE Gcd(b, a % b)

RNorm(q) == LET n == q[1]
                d == q[2]
                s == IF d < 0 THEN -1 ELSE 1
                g == Gcd(Abs(n), Abs(d))
            IN IF n = 0 THEN << 0, 1 >> ELSE << (s * n) \div g, (s * d) \div g >>
R(n, d) == RNorm(<< n, d >>)
RInt(n) == << n, 1 >>
\* sums over the least common denominator (keeps intermediate products small)
RAdd(a, b) == LET g == Gcd(a[2], b[2])
                  fa == b[2] \div g
                  fb == a[2] \div g
              IN RNorm(<< a[1] * fa + b[1] * fb, a[2] * fa >>)
RSub(a, b) == RAdd(a, << 0 - b[1], b[2] >>)
RMul(a, b) == LET g1 == Gcd(Abs(a[1]), b[2])
                  g2 == Gcd(Abs(b[1]), a[2])
                  h1 == IF g1 = 0 THEN 1 ELSE g1
                  h2 == IF g2 = 0 THEN 1 ELSE g2
              IN RNorm(<< (a[1] \div h1) * (b[1] \div h2), (a[2] \div h2) * (b[2] \div h1) >>)
RDiv(a, b) == RMul(a, << b[2], b[1] >>)      \* b # 0
RNeg(a) == << 0 - a[1], a[2] >>
ROne == << 1, 1 >>
RZero == << 0, 1 >>
=============================================================================
