---------------------------- MODULE EquationObj ----------------------------
(* Equation.AddTerm with Term *objects* (object identity matters in the implementation: a Term handed to  *)
(* AddTerm may be the very object that already sits in this or in another equation).  Two equations, a     *)
(* pool of Term objects created by the caller.  The abstract meaning of adding an object is that of adding *)
(* the text it was created from: AddTerm copies, so later additions never change what was added before.    *)
EXTENDS Equation

CONSTANTS MaxOps, ObjForms

VARIABLES terms2, added2, objs, ops
ovars == << vars, terms2, added2, objs, ops >>

OInit == /\ mode = "eq" /\ start = NoStart /\ terms = << >> /\ lead = << 0, 0 >> /\ added = << >> /\ jn = NoJoin
         /\ terms2 = << >> /\ added2 = << >> /\ objs = << >> /\ ops = << >>

(* op = [kind |-> "str" | "new" | "re", eq |-> 1 | 2, form |-> f, idx |-> i] *)
(* A form carries w2 = twice the weight the caller gives the Term object (Term.Constant is a public coefficient: *)
(* 1 = half, 2 = the plain term, 3 = one and a half).  Coefficients of this module are therefore in HALF units.   *)
FormOf(op, os) == IF op.kind = "re" THEN os[op.idx] ELSE op.form
OCoef2(f) == FormCoef(f) * f.w2
OAddTermOp(ts, f) ==
    LET i == MergeIdx(ts, f.body)
    IN IF i = 0 THEN Append(ts, MkTerm(f.body, OCoef2(f), FALSE))
       ELSE [ts EXCEPT ![i].coef = @ + OCoef2(f)]
RECURSIVE OSumAdded(_, _)
OSumAdded(fs, v) == IF fs = << >> THEN 0
                    ELSE OCoef2(Head(fs)) * DenText(Head(fs).body, v) + OSumAdded(Tail(fs), v)

(* rendering in half units: Python's str(float) of c2/2 *)
HalfStr(c2) == LET a == IF c2 < 0 THEN -c2 ELSE c2
               IN (IF c2 < 0 THEN "-" ELSE "") \o ToString(a \div 2) \o (IF a % 2 = 0 THEN ".0" ELSE ".5")
OTermStr(t) ==
    IF t.blob THEN t.text
    ELSE IF t.coef = 0 THEN ""
    ELSE IF t.coef = 2 THEN "+" \o t.text
    ELSE IF t.coef = -2 THEN "-" \o t.text
    ELSE IF t.coef > 0 THEN "+" \o HalfStr(t.coef) \o "*" \o t.text
    ELSE HalfStr(t.coef) \o "*" \o t.text
RECURSIVE ORender(_, _)
ORender(ts, first) ==
    IF ts = << >> THEN ""
    ELSE LET t == Head(ts)
             str == OTermStr(t)
         IN IF str = "" THEN ORender(Tail(ts), first)
            ELSE (IF first /\ ~t.blob /\ t.coef > 0
                  THEN (IF t.coef = 2 THEN t.text ELSE HalfStr(t.coef) \o "*" \o t.text)
                  ELSE str) \o ORender(Tail(ts), FALSE)
ORenderText(ts) == LET str == ORender(ts, TRUE) IN IF str = "" THEN "0.0" ELSE str

ObjOp(op) ==
    /\ Len(ops) < MaxOps
    /\ LET f == FormOf(op, objs)
       IN /\ IF op.eq = 1
             THEN terms' = OAddTermOp(terms, f) /\ added' = Append(added, f) /\ UNCHANGED << terms2, added2 >>
             ELSE terms2' = OAddTermOp(terms2, f) /\ added2' = Append(added2, f) /\ UNCHANGED << terms, added >>
          /\ objs' = IF op.kind = "new" THEN Append(objs, f) ELSE objs
    /\ ops' = Append(ops, op)
    /\ UNCHANGED << mode, start, lead, jn >>

NoForm == [s1 |-> "", br |-> FALSE, s2 |-> "", body |-> "", w2 |-> 2]
ONext == \/ \E e \in {1, 2}, f \in ObjForms :
              \/ f.w2 = 2 /\ ObjOp([kind |-> "str", eq |-> e, form |-> f, idx |-> 0])   \* a text has no weight
              \/ ObjOp([kind |-> "new", eq |-> e, form |-> f, idx |-> 0])
         \/ \E e \in {1, 2}, i \in 1..Len(objs) : ObjOp([kind |-> "re", eq |-> e, form |-> NoForm, idx |-> i])

OSpec == OInit /\ [][ONext]_ovars

C12_ValuePreserved_Both ==
    \A i \in 1..2 : /\ DenTerms(terms, Vals[i]) = OSumAdded(added, Vals[i])
                    /\ DenTerms(terms2, Vals[i]) = OSumAdded(added2, Vals[i])
=============================================================================
