---------------------------- MODULE EquationObj ----------------------------
(* Equation.AddTerm with Term *objects* (object identity matters in the implementation: a Term handed to  *)
(* AddTerm may be the very object that already sits in this or in another equation).  Two equations, a     *)
(* pool of Term objects created by the caller.  The abstract meaning of adding an object is that of adding *)
(* the text it was created from: AddTerm copies, so later additions never change what was added before.    *)
EXTENDS Equation

CONSTANTS MaxOps, ObjForms

VARIABLES terms2, added2, objs, ops
ovars == << vars, terms2, added2, objs, ops >>

OInit == /\ mode = "eq" /\ start = NoStart /\ terms = << >> /\ lead = << 0, 0 >> /\ added = << >> /\ jn = NoJoin
         /\ terms2 = << >> /\ added2 = << >> /\ objs = << >> /\ ops = << >>

(* op = [kind |-> "str" | "new" | "re", eq |-> 1 | 2, form |-> f, idx |-> i] *)
FormOf(op, os) == IF op.kind = "re" THEN os[op.idx] ELSE op.form

ObjOp(op) ==
    /\ Len(ops) < MaxOps
    /\ LET f == FormOf(op, objs)
       IN /\ IF op.eq = 1
             THEN terms' = AddTermOp(terms, f) /\ added' = Append(added, f) /\ UNCHANGED << terms2, added2 >>
             ELSE terms2' = AddTermOp(terms2, f) /\ added2' = Append(added2, f) /\ UNCHANGED << terms, added >>
          /\ objs' = IF op.kind = "new" THEN Append(objs, f) ELSE objs
    /\ ops' = Append(ops, op)
    /\ UNCHANGED << mode, start, lead, jn >>

NoForm == [s1 |-> "", br |-> FALSE, s2 |-> "", body |-> ""]
ONext == \/ \E e \in {1, 2}, f \in ObjForms :
              \/ ObjOp([kind |-> "str", eq |-> e, form |-> f, idx |-> 0])
              \/ ObjOp([kind |-> "new", eq |-> e, form |-> f, idx |-> 0])
         \/ \E e \in {1, 2}, i \in 1..Len(objs) : ObjOp([kind |-> "re", eq |-> e, form |-> NoForm, idx |-> i])

OSpec == OInit /\ [][ONext]_ovars

C12_ValuePreserved_Both ==
    \A i \in 1..2 : /\ DenTerms(terms, Vals[i]) = SumAdded(added, Vals[i])
                    /\ DenTerms(terms2, Vals[i]) = SumAdded(added2, Vals[i])
=============================================================================
