--------------------------- MODULE MC_EquationObj ---------------------------
EXTENDS EquationObj, Json
MC_ObjForms == { [s1 |-> s, br |-> FALSE, s2 |-> "", body |-> b] : s \in {"", "-"}, b \in {"x", "y"} }
Emit == (Len(ops) = MaxOps) => PrintT(<< "BEH", ToJson([ops |-> ops]) >>)
=============================================================================
