--------------------------- MODULE MC_EquationObj ---------------------------
EXTENDS EquationObj, Json
MC_ObjForms == { [s1 |-> s, br |-> FALSE, s2 |-> "", body |-> "x", w2 |-> w] : s \in {"", "-"}, w \in {1, 2, 3} }
               \cup { [s1 |-> s, br |-> FALSE, s2 |-> "", body |-> "y", w2 |-> 2] : s \in {"", "-"} }
Emit == (Len(ops) = MaxOps) => PrintT(<< "BEH", ToJson([ops |-> ops]) >>)
=============================================================================
