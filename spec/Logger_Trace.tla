---------------------------- MODULE Logger_Trace ----------------------------
(* Trace validation for Logger: executions of the real sfc_models.utils.Logger recorded *)
(* by harness/loggercheck.py are folded through the actions of Logger.  One total       *)
(* verdict per trace id.                                                                *)
(*                                                                                      *)
(* Every event carries what the driver saw after the call:                              *)
(*   exc       class name of the exception the call raised ("" = returned)              *)
(*   reg       log name -> [kind, file]: kind of the value under that key of            *)
(*             Logger.log_file_handles ("none" no key | "str" | "open" | "closed" |     *)
(*             "other"), file = id of the file it names ("" none, "?" unknown path)     *)
(*   extra     number of keys outside the log names of the universe                     *)
(*   exists    file id -> os.path.exists                                                *)
(*   seen      file id -> the content of the file was read (mode "flush": always, open  *)
(*             handles are flushed first; mode "noflush": only files no handle is open  *)
(*             on, so that nothing the observer does can complete a file)               *)
(*   ids, text file id -> message ids found in the file in order / the text itself      *)
(*   unclosed  number of file objects the registry once held that are neither closed    *)
(*             nor in the registry any more                                             *)
(*   cutoff    Logger.priority_cutoff                                                   *)
(*                                                                                      *)
(*   property:<clause>@<call>   a sentence of the extension is false on the observation *)
(*   drift:<clause>             the code did something the spec action does not predict *)
(* "Nothing changes" sentences are judged observed-after against observed-before (obs); *)
(* Log_OrderPreserved is judged against the predicted content and therefore only as long*)
(* as the trace has shown no drift.                                                     *)
EXTENDS Logger, Json, IOUtils

Log == ndJsonDeserialize(IOEnv.TRACE_FILE)

VARIABLES l, verdict, obs
tvars == << vars, l, verdict, obs >>

Ok == [kind |-> "ok", clause |-> ""]
Prop(c) == [kind |-> "property", clause |-> c]
Drift(c) == [kind |-> "drift", clause |-> c]
Rank(v) == CASE v.kind = "ok" -> 0 [] v.kind = "drift" -> 1 [] v.kind = "property" -> 2
Worse(a, b) == IF Rank(b) > Rank(a) THEN b ELSE a     \* keeps the first of equal rank
PredictedOnly == {"Log_OrderPreserved@Write", "Log_OrderPreserved@Cleanup", "Log_OrderPreserved@Main"}
Combine(v, j) == IF v.kind = "drift" /\ j.kind = "property" /\ j.clause \in PredictedOnly THEN v ELSE Worse(v, j)

RegKind(h) == CASE h = "none" -> "none" [] h = "registered" -> "str" [] h = "open" -> "open"
SeqRange(q) == { q[i] : i \in DOMAIN q }

(* observed against predicted (primed = after the call) *)
RegOK(e)    == e.extra = 0 /\ \A lg \in AllLogs : e.reg[lg].kind = RegKind(handles'[lg]) /\ e.reg[lg].file = fileOf'[lg]
ExistsOK(e) == \A f \in Files : e.exists[f] = exists'[f]
IdsOK(e)    == \A f \in Files : e.seen[f] => e.ids[f] = content'[f]
TextOK(e)   == \A f \in Files : (e.seen[f] /\ ~opaque'[f]) => e.text[f] = text'[f]
Forgot(e)   == e.extra = 0 /\ \A lg \in AllLogs : e.reg[lg].kind = "none"

(* observed after against observed before *)
FilesUnchanged(e) == /\ e.exists = obs.exists
                     /\ \A f \in Files : (e.seen[f] /\ obs.seen[f]) => (e.ids[f] = obs.ids[f] /\ e.text[f] = obs.text[f])
Unchanged(e) == e.reg = obs.reg /\ e.extra = obs.extra /\ FilesUnchanged(e)

Rest(e) == IF e.unclosed > 0 THEN Prop("Log_CleanupForgets@handle-left-open")
           ELSE IF e.cutoff # cutoff' THEN Drift("cutoff")
           ELSE Ok
Conform(e) == IF ~RegOK(e) THEN Drift("registry")
           ELSE IF ~TextOK(e) THEN Drift("text")
           ELSE Rest(e)

JudgeRegister(e) ==
    IF handles[e.lg] # "none"
    THEN IF e.exc # "ValueError" THEN Prop("Log_ReRegisterRejected@no-ValueError")
         ELSE IF ~Unchanged(e) THEN Prop("Log_ReRegisterRejected@state-changed")
         ELSE Conform(e)
    ELSE IF e.exc # "" THEN Drift("register_raised")
         ELSE IF ~FilesUnchanged(e) THEN Prop("Log_FileCreatedLazily@Register")
         ELSE Conform(e)

JudgeRegisterStandard(e) ==
    IF e.exc # "" THEN Drift("register_standard_raised")
    ELSE IF ~FilesUnchanged(e) THEN Prop("Log_FileCreatedLazily@RegisterStandard")
    ELSE Conform(e)

JudgeWrite(e) ==
    LET pre == handles[e.lg]
        filtered == e.prio > cutoff
        leaked == \E f \in Files : e.seen[f] /\ e.id \in SeqRange(e.ids[f])
    IN IF pre = "none"
       THEN IF obs.reg[e.lg].kind # "none" THEN Drift("registry")
            ELSE IF e.exc # "" THEN Prop("Log_UnregisteredEaten@raised")
            ELSE IF ~Unchanged(e) THEN Prop("Log_UnregisteredEaten@state-changed")
            ELSE Conform(e)
       ELSE IF e.exc # "" THEN Drift("write_raised")
       ELSE IF filtered
       THEN IF leaked THEN Prop("Log_OrderPreserved@filtered-message-written")
            ELSE IF ~ExistsOK(e) \/ ~IdsOK(e) THEN Drift("filtered_write_opens")
            ELSE Conform(e)
       ELSE IF ~ExistsOK(e) \/ ~IdsOK(e) THEN Prop("Log_OrderPreserved@Write")
            ELSE Conform(e)

JudgeSetCutoff(e) ==
    IF e.exc # "" THEN Drift("setcutoff_raised")
    ELSE IF ~Unchanged(e) THEN Drift("setcutoff_changed_state")
    ELSE Conform(e)

JudgeCleanup(e) ==
    IF e.exc # "" THEN Prop("Log_CleanupForgets@raised")
    ELSE IF ~Forgot(e) THEN Prop("Log_CleanupForgets@registration-survives")
    ELSE IF e.unclosed > 0 THEN Prop("Log_CleanupForgets@handle-left-open")
    ELSE IF ~ExistsOK(e) \/ ~IdsOK(e) THEN Prop("Log_OrderPreserved@Cleanup")
    ELSE Conform(e)

JudgeMain(e) ==
    IF ~Forgot(e) THEN Prop("Log_CleanupForgets@registration-survives-main")
    ELSE IF e.unclosed > 0 THEN Prop("Log_CleanupForgets@handle-left-open")
    ELSE IF e.kind = "solves" /\ e.exc # "" THEN Drift("main_raised")
    ELSE IF e.kind = "fails" /\ e.exc = "" THEN Drift("main_did_not_raise")
    ELSE IF ~IdsOK(e) THEN Prop("Log_OrderPreserved@Main")
    ELSE IF ~ExistsOK(e) THEN Drift("main_files")
    ELSE Conform(e)

ShapeOf(e) == [prio |-> e.prio, endline |-> e.endline, kind |-> e.kind]

TraceInit == Init /\ l = 1 /\ verdict = Ok /\ obs = [ev |-> "none"]

Reset ==
    /\ Becomes(InitState)
    /\ hist' = << >>
    /\ want' = [f \in Files |-> << >>]
    /\ reached' = {}
    /\ last' = NoLast

TraceNext ==
    /\ l <= Len(Log)
    /\ l' = l + 1
    /\ LET e == Log[l] IN
       \/ /\ e.ev = "Begin"
          /\ UNCHANGED vars
          /\ obs' = e
          /\ verdict' = IF Forgot(e) /\ e.cutoff = DefaultCutoff /\ \A f \in Files : ~e.exists[f]
                        THEN verdict ELSE Drift("begin_state")
       \/ /\ e.ev = "Register"
          /\ Register(e.lg)
          /\ obs' = e
          /\ verdict' = Combine(verdict, JudgeRegister(e))
       \/ /\ e.ev = "RegisterStandard"
          /\ RegisterStandard(e.b)
          /\ obs' = e
          /\ verdict' = Combine(verdict, JudgeRegisterStandard(e))
       \/ /\ e.ev = "Write"
          /\ Write(e.lg, ShapeOf(e))
          /\ obs' = e
          /\ verdict' = Combine(verdict, IF e.id # NextId THEN Drift("message_id") ELSE JudgeWrite(e))
       \/ /\ e.ev = "SetCutoff"
          /\ SetCutoff(e.c)
          /\ obs' = e
          /\ verdict' = Combine(verdict, JudgeSetCutoff(e))
       \/ /\ e.ev = "Cleanup"
          /\ Cleanup
          /\ obs' = e
          /\ verdict' = Combine(verdict, JudgeCleanup(e))
       \/ /\ e.ev = "Main"
          /\ Main(e.b, e.kind)
          /\ obs' = e
          /\ verdict' = Combine(verdict, JudgeMain(e))
       \/ /\ e.ev = "End"
          /\ PrintT(<< "VERDICT", e.tid, verdict.kind \o ":" \o verdict.clause >>)
          /\ Reset
          /\ obs' = [ev |-> "none"]
          /\ verdict' = Ok

TraceSpec == TraceInit /\ [][TraceNext]_tvars

AllConsumed == TLCGet("stats").diameter - 1 = Len(Log)
=============================================================================
