----------------------------- MODULE ModelBuild -----------------------------
(* How sfc_models assembles a model: declaration of countries and sectors, then the   *)
(* fixed pipeline of Model.main():                                                     *)
(*    FullCodes -> Generate(i) for every sector in declaration order (per country, in  *)
(*    the order the countries were created) -> FixAliases -> CashFlows (registered      *)
(*    flows) -> ProcessExogenous -> Final.                                             *)
(*                                                                                    *)
(* Abstract state: per sector its variable table, for every variable a *structured*    *)
(* definition (sum of signed monomials of variables / lag / atom / quotient), the      *)
(* ledgers F and INC as bags of signed monomials, the income exclusions, the FX        *)
(* intermediary's NET ledgers per currency.  A variable is a pair <<sector, local>>.   *)
(*                                                                                    *)
(* Sources modelled: sector.py (Sector, Market), sector_definitions.py (all kinds),    *)
(* external.py (ExternalSector, XR, FX, GOLD), models.py (pipeline, registered flows). *)
(*                                                                                    *)
(* Values: Den(.) evaluates a definition in the prime field Z_P under a valuation of   *)
(* the atoms, at time "cur" or "prev"; a lagged variable at "cur" is its source at     *)
(* "prev" ("a period whose lagged inputs are model-consistent").  Identities that hold *)
(* over the rationals hold in Z_P; the converse fails with probability ~1/P per        *)
(* valuation (two valuations are used).                                                *)
EXTENDS Integers, Sequences, FiniteSets, TLC, FiniteSetsExt, SequencesExt

CONSTANTS
    Blueprints,                 \* set of blueprint records (see MC_ModelBuild)
    AsFound_LabourDemandLate,   \* TRUE: FixedMarginBusiness creates DEM_<labour> only in _GenerateEquations
    AsFound_LiteralSupGood,     \* TRUE: FixedMarginBusiness' PROF names SUP_GOOD literally
    AsFound_DividendsPerPayer,  \* TRUE: recipient = first sector with DIV (a paying business included), credited once per payer
    AsFound_FirstRecipient      \* TRUE: with several possible dividend recipients the first declared one is paid (order dependent)

P == 10007

----------------------------------------------------------------------------
(* blueprint accessors *)
NSec(bp) == Len(bp.sectors)
Sec(bp, s) == bp.sectors[s]
XRid(bp) == NSec(bp) + 1          \* the three sectors of the ExternalSector country
FXid(bp) == NSec(bp) + 2
GOLDid(bp) == NSec(bp) + 3
HasExt(bp) == bp.external # "none"
NCountries(bp) == Len(bp.countries) + (IF HasExt(bp) THEN 1 ELSE 0)
Multi(bp) == NCountries(bp) > 1

CountryOf(bp, s) == IF s > NSec(bp) THEN "EXT" ELSE Sec(bp, s).cc
CodeOf(bp, s) == IF s = XRid(bp) THEN "XR" ELSE IF s = FXid(bp) THEN "FX"
                 ELSE IF s = GOLDid(bp) THEN "GOLD" ELSE Sec(bp, s).code
CurOfCountry(bp, cc) == IF cc = "EXT" THEN "NUMERAIRE"
                        ELSE (CHOOSE c \in Range(bp.countries) : c.code = cc).cur
CurOf(bp, s) == CurOfCountry(bp, CountryOf(bp, s))
FullCode(bp, s) == IF Multi(bp) THEN CountryOf(bp, s) \o "_" \o CodeOf(bp, s) ELSE CodeOf(bp, s)
CodeWithCountry(bp, s) == CountryOf(bp, s) \o "_" \o CodeOf(bp, s)
FullName(bp, v) == FullCode(bp, v[1]) \o "__" \o v[2]
Currencies(bp) == { c.cur : c \in Range(bp.countries) } \cup (IF HasExt(bp) THEN {"NUMERAIRE"} ELSE {})

HasFKind(k) == k \notin {"Market", "TaxFlow", "MoneyMarket", "DepositMarket"}
IsMarketKind(k) == k \in {"Market", "MoneyMarket", "DepositMarket"}
Taxable(k) == k \in {"Household", "HouseholdWithExpectations", "Capitalists"}
KindOf(bp, s) == IF s > NSec(bp) THEN "Ext" ELSE Sec(bp, s).kind
HasF(bp, s) == s <= NSec(bp) /\ HasFKind(KindOf(bp, s))

----------------------------------------------------------------------------
(* bags of signed monomials; a monomial is a set of variables (the empty set is 1) *)
NoTerms == << >>
MAdd(b, m, c) == IF m \in DOMAIN b THEN [b EXCEPT ![m] = @ + c] ELSE (m :> c) @@ b
MNorm(b) == [m \in { x \in DOMAIN b : b[x] # 0 } |-> b[m]]
M1(m, c) == (m :> c)
RECURSIVE MOfSeq(_)
MOfSeq(ms) == IF ms = << >> THEN NoTerms ELSE MAdd(MOfSeq(Tail(ms)), Head(ms), 1)

(* definitions *)
DEmpty == [t |-> "empty", of |-> << 0, "" >>, den |-> << 0, "" >>, terms |-> NoTerms]
DZero  == [DEmpty EXCEPT !.t = "zero"]      \* the literal '0.0' (AddCashFlow may replace it)
DConst0 == [DEmpty EXCEPT !.t = "const0"]   \* the literal '0.'  (value 0, never replaced)
DAtom  == [DEmpty EXCEPT !.t = "atom"]      \* parameter, behavioural equation, exogenous path
DLag(v) == [DEmpty EXCEPT !.t = "lag", !.of = v]
DQuot(n, d) == [DEmpty EXCEPT !.t = "quot", !.of = n, !.den = d]
DSum(b) == [DEmpty EXCEPT !.t = "sum", !.terms = b]
DVar(v) == DSum(M1({v}, 1))
NoDef == [DEmpty EXCEPT !.t = "nodef"]
Replaceable(d) == d.t \in {"empty", "zero"}

----------------------------------------------------------------------------
(* the abstract model state *)
NoErr == ""
EmptySt(bp) ==
    [ vt   |-> [s \in 1..(NSec(bp) + 3) |-> {}],
      df   |-> << >>,
      F    |-> [s \in 1..NSec(bp) |-> NoTerms],
      INC  |-> [s \in 1..NSec(bp) |-> NoTerms],
      excl |-> [s \in 1..NSec(bp) |-> {}],
      net  |-> [c \in Currencies(bp) |-> NoTerms],
      reg  |-> << >>,          \* registered cash flows [src, dst, var, incs, incd]
      err  |-> NoErr ]

Fail(st, msg) == IF st.err = NoErr THEN [st EXCEPT !.err = msg] ELSE st
HasVar(st, s, l) == l \in st.vt[s]
SetVar(st, s, l, d) == [st EXCEPT !.vt[s] = @ \cup {l}, !.df = (<< s, l >> :> d) @@ @]
DefOf(st, v) == st.df[v]

(* Sector.AddTermToEquation on a variable whose definition is '' / '0.' / '0.0' / a sum *)
AddTermToVar(st, v, m, c) ==
    LET d == st.df[v]
    IN IF d.t \in {"empty", "zero", "const0"} THEN [st EXCEPT !.df[v] = DSum(M1(m, c))]
       ELSE IF d.t = "sum" THEN [st EXCEPT !.df[v] = DSum(MAdd(d.terms, m, c))]
       ELSE Fail(st, "AddTermToEquation on opaque definition")

(* Sector.AddCashFlow(term, eqn, is_income):  m = monomial, c = +1/-1, tname = the text of   *)
(* the term (what income exclusions are matched against), dfn = definition offered for dv    *)
AddCashFlow(st, s, c, m, tname, inc, dfn, dv) ==
    LET isInc == inc /\ tname \notin st.excl[s]
        st1 == [st EXCEPT !.F[s] = MAdd(@, m, c),
                          !.INC[s] = IF isInc THEN MAdd(@, m, c) ELSE @]
    IN IF dfn.t = "nodef" THEN st1
       ELSE IF dv \in DOMAIN st1.df
            THEN (IF Replaceable(st1.df[dv]) THEN [st1 EXCEPT !.df[dv] = dfn] ELSE st1)
            ELSE SetVar(st1, dv[1], dv[2], dfn)

----------------------------------------------------------------------------
(* constructors: what each class' __init__ puts into the sector *)
BaseSector(st, bp, s) ==
    IF HasF(bp, s)
    THEN SetVar(SetVar(SetVar(st, s, "F", DEmpty), s, "INC", DEmpty), s, "LAG_F", DLag(<< s, "F" >>))
    ELSE st

GovCore(st, s) ==
    SetVar(SetVar(st, s, "DEM_GOOD", DZero), s, "PRIM_BAL",
           DSum(MAdd(M1({<< s, "T" >>}, 1), {<< s, "DEM_GOOD" >>}, -1)))

HouseholdCore(st, bp, s) ==
    LET d == Sec(bp, s)
        g == "DEM_" \o d.good
        st1 == [st EXCEPT !.excl[s] = @ \cup {g}]
        st2 == SetVar(SetVar(st1, s, "AlphaIncome", DAtom), s, "AlphaFin", DAtom)
        st3 == SetVar(st2, s, g, DAtom)      \* behavioural consumption function
        st4 == SetVar(st3, s, "AfterTax", DSum(MAdd(M1({<< s, "INC" >>}, 1), {<< s, "T" >>}, -1)))
    IN SetVar(st4, s, "T", DEmpty)

RECURSIVE MultiMarkets(_, _, _, _)
MultiMarkets(st, bp, s, ms) ==
    IF ms = << >> THEN st
    ELSE LET m == Head(ms)
             term == IF CountryOf(bp, m) = CountryOf(bp, s) THEN "SUP_" \o CodeOf(bp, m)
                     ELSE "SUP_" \o CodeWithCountry(bp, m)
             st1 == SetVar(st, s, term, DEmpty)
         IN MultiMarkets(AddTermToVar(st1, << s, "SUP" >>, {<< s, term >>}, 1), bp, s, Tail(ms))

Ctor(st0, bp, s) ==
    LET d == Sec(bp, s)
        st == BaseSector(st0, bp, s)
        k == d.kind
    IN CASE k \in {"ConsolidatedGovernment", "DoNothingGovernment"} ->   \* DoNothingGovernment: a subclass that adds nothing
              SetVar(SetVar(GovCore(st, s), s, "FISC_BAL", DVar(<< s, "INC" >>)), s, "T", DConst0)
         [] k = "GoldStandardGovernment" ->
              SetVar(SetVar(GovCore(st, s), s, "FISC_BAL", DVar(<< s, "INC" >>)), s, "T", DConst0)
         [] k = "Treasury" ->
              SetVar(SetVar(GovCore(st, s), s, "DEM_MON", DZero), s, "T", DZero)
         [] k = "BareSector" -> st     \* a user's bare Sector (F, LAG_F, INC only); what it holds is stated with d.extra
         [] k = "RestOfWorld" -> st    \* a user's bare Sector placed in the ExternalSector country: its books are in the NUMERAIRE
         [] k = "PlainGovernment" ->   \* a user's own government: a bare Sector with DEM_<good> and T = '0.'
              SetVar(SetVar(st, s, "DEM_" \o d.good, DZero), s, "T", DConst0)
         [] k \in {"CentralBank", "GoldStandardCentralBank"} ->
              SetVar(st, s, "DEM_DEP", DSum(MAdd(M1({<< s, "F" >>}, 1), {<< s, "SUP_MON" >>}, 1)))
         [] k = "Household" ->
              SetVar(HouseholdCore(st, bp, s), s, "SUP_" \o d.lab, DConst0)
         [] k = "HouseholdWithExpectations" ->
              LET st1 == SetVar(HouseholdCore(st, bp, s), s, "SUP_" \o d.lab, DConst0)
                  st2 == SetVar(st1, s, "LAG_AfterTax", DLag(<< s, "AfterTax" >>))
              IN SetVar(st2, s, "EXP_AfterTax", DVar(<< s, "LAG_AfterTax" >>))
         [] k = "Capitalists" ->
              SetVar(HouseholdCore(st, bp, s), s, "DIV", DEmpty)
         [] k \in {"FixedMarginBusiness", "FixedMarginBusinessSub"} ->
              LET st1 == SetVar(st, s, "SUP_" \o d.good, DEmpty)
                  supname == IF AsFound_LiteralSupGood THEN "SUP_GOOD" ELSE "SUP_" \o d.good
                  st2 == SetVar(st1, s, "PROF",
                                DSum(MAdd(M1({<< s, supname >>}, 1), {<< s, "DEM_" \o d.lab >>}, -1)))
              IN IF AsFound_LabourDemandLate THEN st2 ELSE SetVar(st2, s, "DEM_" \o d.lab, DEmpty)
         [] k = "FixedMarginBusinessMultiOutput" ->
              LET st1 == MultiMarkets(SetVar(st, s, "SUP", DEmpty), bp, s, d.mkts)
                  st2 == SetVar(st1, s, "PROF",
                                DSum(MAdd(M1({<< s, "SUP" >>}, 1), {<< s, "DEM_" \o d.lab >>}, -1)))
              IN SetVar(st2, s, "DEM_" \o d.lab, DEmpty)
         [] k = "TaxFlow" ->
              SetVar(SetVar(st, s, "TaxRate", DAtom), s, "T", DEmpty)
         [] k = "Market" ->
              SetVar(SetVar(st, s, "SUP_" \o d.code, DEmpty), s, "DEM_" \o d.code, DEmpty)
         [] k = "MoneyMarket" ->
              SetVar(SetVar(st, s, "SUP_" \o d.code, DEmpty), s, "DEM_" \o d.code, DEmpty)
         [] k = "DepositMarket" ->
              LET st1 == SetVar(SetVar(st, s, "SUP_" \o d.code, DEmpty), s, "DEM_" \o d.code, DEmpty)
              IN SetVar(SetVar(st1, s, "r", DConst0), s, "LAG_r", DLag(<< s, "r" >>))

(* statements of the user's script that follow the constructor of s in the blueprint:   *)
(* extra government demand variables, GenerateAssetWeighting, a GIFT variable            *)
RECURSIVE ExtraDemands(_, _, _)
ExtraDemands(st, s, names) ==
    IF names = << >> THEN st
    ELSE ExtraDemands(SetVar(st, s, Head(names), DZero), s, Tail(names))

(* Sector.GenerateAssetWeighting(weights, residual): WGT_<a> and DEM_<a> = F * WGT_<a> for every weighted asset a, *)
(* the residual asset gets weight 1 - sum of the others                                                          *)
RECURSIVE Weighted(_, _, _, _)
Weighted(st, s, assets, resid) ==
    IF assets = << >> THEN [st |-> st, resid |-> resid]
    ELSE LET a == Head(assets)
             st1 == SetVar(st, s, "WGT_" \o a, DAtom)
             st2 == SetVar(st1, s, "DEM_" \o a, DSum(M1({<< s, "F" >>, << s, "WGT_" \o a >>}, 1)))
         IN Weighted(st2, s, Tail(assets), MAdd(resid, {<< s, "WGT_" \o a >>}, -1))

\* parameters a builder adds to a sector with AddVariable (constants or exogenous paths): atoms of the valuation
RECURSIVE ExtraParams(_, _, _)
ExtraParams(st, s, names) ==
    IF names = << >> THEN st
    ELSE ExtraParams(SetVar(st, s, Head(names), DAtom), s, Tail(names))

PostCtor(st, bp, s) ==
    LET d == Sec(bp, s)
        st1 == ExtraParams(ExtraDemands(st, s, d.extra), s, d.params)
        st2 == IF d.aw # << >>
               THEN LET w == Weighted(st1, s, d.aw, M1({}, 1))
                        c == SetVar(w.st, s, "WGT_MON", DSum(w.resid))
                    IN SetVar(c, s, "DEM_MON", DSum(M1({<< s, "F" >>, << s, "WGT_MON" >>}, 1)))
               ELSE st1
    \* a GIFT variable, and a variable XTRA built with AddTermToEquation from a product of two names
    IN IF d.gift /\ d.kind = "RestOfWorld" THEN SetVar(st2, s, "GIFT", DAtom)     \* a constant amount
       \* ... and a variable TWICE whose definition is one requested name, to which the same name is added as a term
       \* ... DBL (the same requested name added twice as a term) and NIL (added and subtracted)
       ELSE IF d.gift THEN SetVar(SetVar(SetVar(SetVar(SetVar(st2, s, "GIFT", DAtom), s, "XTRA", DAtom), s, "TWICE", DAtom),
                                         s, "DBL", DAtom), s, "NIL", DAtom)
       ELSE st2

(* statements that need two objects to exist (issued after all declarations): AddMarket on a multi-output business *)
RECURSIVE LateMarkets(_, _, _)
LateMarkets(st, bp, s) ==
    IF s = 0 THEN st
    ELSE LET st1 == LateMarkets(st, bp, s - 1)
         IN IF Sec(bp, s).late = << >> THEN st1 ELSE MultiMarkets(st1, bp, s, Sec(bp, s).late)

(* ExternalSector(model): XR, FX, GOLD; one rate / NET / F / LAG_F per currency *)
RECURSIVE RegisterCurrencies(_, _, _)
RegisterCurrencies(st, bp, curs) ==
    IF curs = {} THEN st
    ELSE LET c == CHOOSE x \in curs : TRUE
             \* the rate of the NUMERAIRE against itself is the constant 1; the others are exogenous paths
             st1 == SetVar(st, XRid(bp), c, IF c = "NUMERAIRE" THEN DSum(M1({}, 1)) ELSE DAtom)
             st2 == SetVar(st1, FXid(bp), "NET_" \o c, DEmpty)
             st3 == SetVar(st2, FXid(bp), "F_" \o c,
                           DSum(MAdd(M1({<< FXid(bp), "LAG_F_" \o c >>}, 1), {<< FXid(bp), "NET_" \o c >>}, 1)))
             st4 == SetVar(st3, FXid(bp), "LAG_F_" \o c, DLag(<< FXid(bp), "F_" \o c >>))
         IN RegisterCurrencies(st4, bp, curs \ {c})

----------------------------------------------------------------------------
(* iteration orders of the code *)
CountryOrder(bp) == [i \in 1..Len(bp.countries) |-> bp.countries[i].code]

(* sectors of country cc in declaration order *)
SectorsOfCountry(bp, decl, cc) == SelectSeq(decl, LAMBDA s : CountryOf(bp, s) = cc)

RECURSIVE ConcatCountries(_, _, _)
ConcatCountries(bp, decl, ccs) ==
    IF ccs = << >> THEN << >>
    ELSE SectorsOfCountry(bp, decl, Head(ccs)) \o ConcatCountries(bp, decl, Tail(ccs))

(* Model.GetSectors() order: for country in CountryList: for sector in SectorList *)
\* the ExternalSector is a country of its own in Model.CountryList (first or last); the user's sectors placed in it are
\* generated at that position (its own XR / FX / GOLD have no _GenerateEquations)
GenOrder(bp, decl) ==
    LET own == ConcatCountries(bp, decl, CountryOrder(bp))
        ext == SectorsOfCountry(bp, decl, "EXT")
    IN IF bp.external = "first" THEN ext \o own ELSE own \o ext

ZoneCountries(bp, cur) == SelectSeq(CountryOrder(bp), LAMBDA cc : CurOfCountry(bp, cc) = cur)
ZoneSectors(bp, decl, cur) == ConcatCountries(bp, decl, ZoneCountries(bp, cur))

----------------------------------------------------------------------------
(* the foreign-exchange intermediary *)
CrossVar(bp, src, tgt) == << XRid(bp), src \o "_" \o tgt >>
EnsureCross(st, bp, src, tgt) ==
    IF HasVar(st, XRid(bp), src \o "_" \o tgt) THEN st
    ELSE SetVar(st, XRid(bp), src \o "_" \o tgt, DQuot(<< XRid(bp), src >>, << XRid(bp), tgt >>))

SendMoney(st, bp, srcCur, v) ==
    [st EXCEPT !.net[srcCur] = MAdd(@, {v}, 1),
               !.net["NUMERAIRE"] = MAdd(@, {v, << XRid(bp), srcCur >>}, -1)]

(* returns the state; the credited monomial is {v, CrossVar} *)
ReceiveMoney(st, bp, srcCur, tgtCur, v) ==
    LET st1 == EnsureCross(st, bp, srcCur, tgtCur)
    IN [st1 EXCEPT !.net[tgtCur] = MAdd(@, {v, CrossVar(bp, srcCur, tgtCur)}, -1),
                   !.net["NUMERAIRE"] = MAdd(@, {v, << XRid(bp), srcCur >>}, 1)]

----------------------------------------------------------------------------
(* _GenerateEquations of each kind *)

\* goods / labour market ------------------------------------------------------
RECURSIVE MarketDemand(_, _, _, _, _)
MarketDemand(st, bp, s, ts, acc) ==
    IF ts = << >> THEN [st |-> st, terms |-> acc]
    ELSE LET t == Head(ts)
             vname == IF CountryOf(bp, t) = CountryOf(bp, s) THEN "DEM_" \o CodeOf(bp, s)
                      ELSE "DEM_" \o FullCode(bp, s)
         IN IF t = s \/ ~HasVar(st, t, vname) THEN MarketDemand(st, bp, s, Tail(ts), acc)
            ELSE IF ~HasF(bp, t) THEN MarketDemand(Fail(st, "demander without F"), bp, s, Tail(ts), acc)
            ELSE MarketDemand(AddCashFlow(st, t, -1, {<< t, vname >>}, vname, TRUE, DEmpty, << t, vname >>),
                              bp, s, Tail(ts), MAdd(acc, {<< t, vname >>}, 1))

SuppliersOf(bp, s) == SelectSeq(bp.suppliers, LAMBDA r : r.mkt = s)
ResidualDeclared(bp, s) == { r.sup : r \in { x \in Range(bp.suppliers) : x.mkt = s /\ ~x.rule } }
SearchSupplier(st, bp, decl, s) ==
    { t \in Range(SectorsOfCountry(bp, decl, CountryOf(bp, s))) :
        t # s /\ HasVar(st, t, "SUP_" \o CodeOf(bp, s)) }

SupplierTerm(bp, s, t) == IF CountryOf(bp, t) = CountryOf(bp, s) THEN "SUP_" \o CodeOf(bp, s)
                          ELSE "SUP_" \o CodeWithCountry(bp, s)

RECURSIVE BookSuppliers(_, _, _, _)
BookSuppliers(st, bp, s, ts) ==
    IF ts = << >> THEN st
    ELSE LET t == Head(ts)
             loc == "SUP_" \o FullCode(bp, t)              \* variable of the market
             own == SupplierTerm(bp, s, t)                 \* variable of the supplier
             st1 == IF HasVar(st, t, own) THEN st ELSE SetVar(st, t, own, DEmpty)
         IN IF CurOf(bp, t) = CurOf(bp, s)
            THEN LET st2 == AddTermToVar(st1, << t, own >>, {<< s, loc >>}, 1)
                 IN BookSuppliers(AddCashFlow(st2, t, 1, {<< t, own >>}, own, TRUE, NoDef, << t, own >>),
                                  bp, s, Tail(ts))
            ELSE IF ~HasExt(bp) THEN Fail(st, "cross-currency supplier without ExternalSector")
            ELSE LET st2 == SendMoney(st1, bp, CurOf(bp, s), << s, loc >>)
                     st3 == ReceiveMoney(st2, bp, CurOf(bp, s), CurOf(bp, t), << s, loc >>)
                     mono == {<< s, loc >>, CrossVar(bp, CurOf(bp, s), CurOf(bp, t))}
                     st4 == AddTermToVar(st3, << t, own >>, mono, 1)
                 IN BookSuppliers(AddCashFlow(st4, t, 1, mono, "cross", TRUE, NoDef, << t, own >>),
                                  bp, s, Tail(ts))

RECURSIVE ResidualBag(_, _, _, _)
ResidualBag(bp, s, others, acc) ==
    IF others = << >> THEN acc
    ELSE ResidualBag(bp, s, Tail(others), MAdd(acc, {<< s, "SUP_" \o FullCode(bp, Head(others)) >>}, -1))

RECURSIVE DefineOthers(_, _, _, _)
DefineOthers(st, bp, s, others) ==
    IF others = << >> THEN st
    ELSE DefineOthers(SetVar(st, s, "SUP_" \o FullCode(bp, Head(others)), DAtom), bp, s, Tail(others))

GenMarket(st, bp, decl, s) ==
    LET code == CodeOf(bp, s)
        declaredRes == ResidualDeclared(bp, s)
        found == SearchSupplier(st, bp, decl, s)
        resSet == IF declaredRes # {} THEN declaredRes ELSE found
    IN IF declaredRes = {} /\ Cardinality(found) # 1
       THEN Fail(st, IF found = {} THEN "no supplier" ELSE "more than one supplier")
       ELSE
       LET res == CHOOSE t \in resSet : TRUE
           dm == MarketDemand(SetVar(st, s, "DEM_" \o code, DEmpty), bp, s,
                              ZoneSectors(bp, decl, CurOf(bp, s)), NoTerms)
           st1 == SetVar(dm.st, s, "DEM_" \o code, DSum(dm.terms))
           st2 == SetVar(st1, s, "SUP_" \o code, DVar(<< s, "DEM_" \o code >>))
           others == LET rs == SelectSeq(SuppliersOf(bp, s), LAMBDA r : r.rule)
                     IN [i \in 1..Len(rs) |-> rs[i].sup]
           st3 == DefineOthers(st2, bp, s, others)
           st4 == SetVar(st3, s, "SUP_" \o FullCode(bp, res),
                         DSum(ResidualBag(bp, s, others, M1({<< s, "SUP_" \o code >>}, 1))))
       IN BookSuppliers(st4, bp, s, Append(others, res))

\* tax flow ---------------------------------------------------------------------
RECURSIVE TaxAll(_, _, _, _, _)
TaxAll(st, bp, s, ts, acc) ==
    IF ts = << >> THEN [st |-> st, terms |-> acc]
    ELSE LET t == Head(ts)
         IN IF t = s \/ ~(Taxable(KindOf(bp, t)) \/ Sec(bp, t).taxable) THEN TaxAll(st, bp, s, Tail(ts), acc)
            ELSE LET rate == IF HasVar(st, t, "TaxRate") THEN << t, "TaxRate" >> ELSE << s, "TaxRate" >>
                     mono == {rate, << t, "INC" >>}
                 IN TaxAll(AddCashFlow(st, t, -1, {<< t, "T" >>}, "T", FALSE, DSum(M1(mono, 1)), << t, "T" >>),
                           bp, s, Tail(ts), MAdd(acc, mono, 1))

GenTaxFlow(st, bp, decl, s) ==
    LET zs == ZoneSectors(bp, decl, CurOf(bp, s))
        tx == TaxAll(st, bp, s, zs, NoTerms)
        st1 == SetVar(tx.st, s, "T", DSum(tx.terms))
        govs == { t \in Range(zs) : CodeOf(bp, t) = Sec(bp, s).taxto }
    IN IF Cardinality(govs) # 1 THEN Fail(st1, "taxing sector not unique in currency zone")
       ELSE LET g == CHOOSE t \in govs : TRUE
            IN IF ~HasVar(st1, g, "T") THEN Fail(st1, "taxing sector has no T")
               ELSE LET st2 == [st1 EXCEPT !.df[<< g, "T" >>] = DVar(<< s, "T" >>)]
                    IN AddCashFlow(st2, g, 1, {<< g, "T" >>}, "T", TRUE, DVar(<< s, "T" >>), << g, "T" >>)

\* money market -------------------------------------------------------------------
RECURSIVE MoneyHolders(_, _, _, _)
MoneyHolders(st, bp, s, ts) ==
    IF ts = << >> THEN st
    ELSE LET t == Head(ts)
             code == CodeOf(bp, s)
             dem == "DEM_" \o code
             sup == "SUP_" \o code
         IN IF ~HasF(bp, t) THEN MoneyHolders(st, bp, s, Tail(ts))
            ELSE IF CodeOf(bp, t) = Sec(bp, s).issuer
            THEN LET st1 == SetVar(st, t, sup, DVar(<< s, dem >>))
                 IN MoneyHolders(SetVar(st1, s, sup, DVar(<< t, sup >>)), bp, s, Tail(ts))
            ELSE IF HasVar(st, t, dem)
            THEN MoneyHolders(AddTermToVar(st, << s, dem >>, {<< t, dem >>}, 1), bp, s, Tail(ts))
            ELSE LET st1 == SetVar(st, t, dem, DVar(<< t, "F" >>))
                 IN MoneyHolders(AddTermToVar(st1, << s, dem >>, {<< t, dem >>}, 1), bp, s, Tail(ts))

GenMoneyMarket(st, bp, decl, s) ==
    MoneyHolders(SetVar(st, s, "DEM_" \o CodeOf(bp, s), DEmpty), bp, s, ZoneSectors(bp, decl, CurOf(bp, s)))

\* deposit market -----------------------------------------------------------------
RECURSIVE DepositHolders(_, _, _, _, _)
DepositHolders(st, bp, s, ts, acc) ==
    IF ts = << >> THEN [st |-> st, terms |-> acc]
    ELSE LET t == Head(ts)
             code == CodeOf(bp, s)
             dem == "DEM_" \o code
             sup == "SUP_" \o code
             int == "INT" \o code
         IN IF IsMarketKind(KindOf(bp, t)) THEN DepositHolders(st, bp, s, Tail(ts), acc)
            ELSE IF CodeOf(bp, t) = Sec(bp, s).issuer
            THEN LET st1 == SetVar(st, t, sup, DVar(<< s, dem >>))
                     st2 == SetVar(st1, t, "LAG_" \o sup, DLag(<< t, sup >>))
                     st3 == AddCashFlow(st2, t, -1, {<< t, int >>}, int, TRUE,
                                        DSum(M1({<< s, "LAG_r" >>, << t, "LAG_" \o sup >>}, 1)), << t, int >>)
                 IN DepositHolders(SetVar(st3, s, sup, DVar(<< t, sup >>)), bp, s, Tail(ts), acc)
            ELSE IF ~HasVar(st, t, dem) THEN DepositHolders(st, bp, s, Tail(ts), acc)
            ELSE LET st1 == SetVar(st, t, "LAG_" \o dem, DLag(<< t, dem >>))
                     st2 == AddCashFlow(st1, t, 1, {<< t, int >>}, int, TRUE,
                                        DSum(M1({<< s, "LAG_r" >>, << t, "LAG_" \o dem >>}, 1)), << t, int >>)
                 IN DepositHolders(st2, bp, s, Tail(ts), MAdd(acc, {<< t, dem >>}, 1))

GenDepositMarket(st, bp, decl, s) ==
    LET r == DepositHolders(st, bp, s, ZoneSectors(bp, decl, CurOf(bp, s)), NoTerms)
    IN SetVar(r.st, s, "DEM_" \o CodeOf(bp, s), DSum(r.terms))

\* businesses -----------------------------------------------------------------------
WageShare(s) == << s, "$W" >>        \* parameter atoms:  $W + $M = 1  (wage share, margin)
Margin(s) == << s, "$M" >>
WithShares(st, s) ==
    LET st1 == [st EXCEPT !.df = (WageShare(s) :> DAtom) @@ @]
    IN [st1 EXCEPT !.df = (Margin(s) :> DSum(MAdd(M1({}, 1), {WageShare(s)}, -1))) @@ @]

FirstWithDIV(st, bp, decl, s) ==
    LET cs == SectorsOfCountry(bp, decl, CountryOf(bp, s))
        idx == { i \in 1..Len(cs) : HasVar(st, cs[i], "DIV") }
    IN IF idx = {} THEN 0 ELSE cs[Min(idx)]

(* the dividend recipient of a FixedMarginBusiness: the first non-business sector of the country declaring DIV *)
DividendRecipient(st, bp, decl, s) ==
    IF AsFound_DividendsPerPayer THEN FirstWithDIV(st, bp, decl, s)
    ELSE LET cs == SectorsOfCountry(bp, decl, CountryOf(bp, s))
             idx == { i \in 1..Len(cs) : cs[i] # s /\ KindOf(bp, cs[i]) \notin {"FixedMarginBusiness", "FixedMarginBusinessSub"} /\ HasVar(st, cs[i], "DIV") }
         IN IF idx = {} THEN 0 ELSE cs[Min(idx)]

(* several sectors that could receive the dividends: refused (the choice would depend on the declaration order) *)
AmbiguousRecipient(st, bp, decl, s) ==
    LET cs == SectorsOfCountry(bp, decl, CountryOf(bp, s))
        idx == { i \in 1..Len(cs) : cs[i] # s /\ KindOf(bp, cs[i]) \notin {"FixedMarginBusiness", "FixedMarginBusinessSub"} /\ HasVar(st, cs[i], "DIV") }
    IN ~AsFound_FirstRecipient /\ ~AsFound_DividendsPerPayer /\ Cardinality(idx) > 1

GenBusiness(st, bp, decl, s) ==
    LET d == Sec(bp, s)
        mk == { t \in Range(SectorsOfCountry(bp, decl, d.cc)) : CodeOf(bp, t) = d.good }
    IN IF mk = {} THEN Fail(st, "business cannot find its market")
       ELSE
       LET m == CHOOSE t \in mk : TRUE
           msup == << m, "SUP_" \o d.good >>
           lab == "DEM_" \o d.lab
       IN IF ~HasVar(st, m, "SUP_" \o d.good) THEN Fail(st, "market has no supply variable")
          ELSE
          LET st1 == IF d.margin
                     THEN LET a == WithShares(st, s)
                              b == SetVar(a, s, lab, DSum(M1({WageShare(s), msup}, 1)))
                          IN SetVar(b, s, "PROF", DSum(M1({Margin(s), msup}, 1)))
                     ELSE SetVar(st, s, lab, DVar(msup))
              t == DividendRecipient(st1, bp, decl, s)
          IN IF AmbiguousRecipient(st1, bp, decl, s) THEN Fail(st1, "more than one possible dividend recipient")
             ELSE IF t = 0 THEN st1
             ELSE LET st2 == AddCashFlow(st1, s, -1, {<< s, "DIV" >>}, "DIV", FALSE, DVar(<< s, "PROF" >>), << s, "DIV" >>)
                  IN IF AsFound_DividendsPerPayer \/ Replaceable(st2.df[<< t, "DIV" >>])
                     THEN AddCashFlow(st2, t, 1, {<< t, "DIV" >>}, "DIV", TRUE, DVar(<< s, "PROF" >>), << t, "DIV" >>)
                     ELSE AddTermToVar(st2, << t, "DIV" >>, {<< s, "PROF" >>}, 1)   \* a further payer: booked once, DIV = sum

GenMultiOutput(st, bp, decl, s) ==
    LET d == Sec(bp, s)
        lab == "DEM_" \o d.lab
        st1 == IF d.margin
               THEN SetVar(WithShares(st, s), s, lab, DSum(M1({WageShare(s), << s, "SUP" >>}, 1)))
               ELSE SetVar(st, s, lab, DVar(<< s, "SUP" >>))
    IN IF FirstWithDIV(st1, bp, decl, s) # 0 THEN Fail(st1, "dividends of multi-output business not implemented")
       ELSE st1

\* gold-standard government: GOLDPURCHASES = GOLDPURCHASES - NET_<cur> (implicitly: the purchases that bring the FX
\* position in the own currency to zero); modelled as a free atom - the identities of C01 / C07 hold for any value
GenGoldGovernment(st, bp, s) ==
    IF ~HasExt(bp) THEN Fail(st, "gold standard sector without ExternalSector")
    ELSE
    LET cur == CurOf(bp, s)
        gp == << s, "GOLDPURCHASES" >>
        price == << GOLDid(bp), "PRICE" >>
        st1 == SetVar(st, s, "GOLDPURCHASES", DAtom)
        st2 == IF HasVar(st1, GOLDid(bp), "PRICE") THEN st1
               ELSE SetVar(SetVar(st1, GOLDid(bp), "PRICE", DAtom), GOLDid(bp), "NETOZ", DEmpty)
        st3 == SetVar(st2, s, "GOLDPRICE", DQuot(price, << XRid(bp), cur >>))
        st4 == SetVar(st3, s, "GOLD", DSum(MAdd(M1({<< s, "LAG_GOLD_OZ" >>, << s, "GOLDPRICE" >>}, 1), {gp}, 1)))
        st5 == SetVar(st4, s, "LAG_GOLD_OZ", DLag(<< s, "GOLD_OZ" >>))
        st6 == SetVar(st5, s, "GOLD_OZ", DQuot(<< s, "GOLD" >>, << s, "GOLDPRICE" >>))
        st7 == SendMoney(st6, bp, cur, gp)
        st8 == AddCashFlow(st7, s, -1, {gp}, "GOLDPURCHASES", FALSE, NoDef, gp)
    IN AddTermToVar(st8, << GOLDid(bp), "NETOZ" >>, {<< XRid(bp), cur >>, gp}, 1)

GenCentralBank(st, bp, s) ==
    [st EXCEPT !.reg = Append(@, [src |-> s, dst |-> Sec(bp, s).tre, var |-> "INTDEP", incs |-> TRUE, incd |-> TRUE])]

Gen(st, bp, decl, s) ==
    IF st.err # NoErr THEN st
    ELSE LET k == KindOf(bp, s)
         IN CASE k = "Market" -> GenMarket(st, bp, decl, s)
              [] k = "TaxFlow" -> GenTaxFlow(st, bp, decl, s)
              [] k = "MoneyMarket" -> GenMoneyMarket(st, bp, decl, s)
              [] k = "DepositMarket" -> GenDepositMarket(st, bp, decl, s)
              [] k \in {"FixedMarginBusiness", "FixedMarginBusinessSub"} -> GenBusiness(st, bp, decl, s)
              [] k = "FixedMarginBusinessMultiOutput" -> GenMultiOutput(st, bp, decl, s)
              [] k = "CentralBank" -> GenCentralBank(st, bp, s)
              [] k = "GoldStandardGovernment" -> GenGoldGovernment(st, bp, s)
              [] k = "GoldStandardCentralBank" -> GenGoldGovernment(GenCentralBank(st, bp, s), bp, s)
              [] OTHER -> st

----------------------------------------------------------------------------
(* Model._GenerateRegisteredCashFlows *)
RECURSIVE CashFlowsOp(_, _, _)
CashFlowsOp(st, bp, fl) ==
    IF fl = << >> \/ st.err # NoErr THEN st
    ELSE LET f == Head(fl)
             cross == CurOf(bp, f.src) # CurOf(bp, f.dst)
             v == << f.src, f.var >>
         IN IF cross /\ ~HasExt(bp) THEN Fail(st, "cross-currency flow without ExternalSector")
            ELSE IF ~HasVar(st, f.src, f.var) THEN Fail(st, "flow variable does not exist")
            ELSE LET st1 == AddCashFlow(st, f.src, -1, {v}, "full", f.incs, NoDef, v)
                 IN IF cross
                    THEN LET st2 == SendMoney(st1, bp, CurOf(bp, f.src), v)
                             st3 == ReceiveMoney(st2, bp, CurOf(bp, f.src), CurOf(bp, f.dst), v)
                             mono == {v, CrossVar(bp, CurOf(bp, f.src), CurOf(bp, f.dst))}
                         IN CashFlowsOp(AddCashFlow(st3, f.dst, 1, mono, "full", f.incd, NoDef, v), bp, Tail(fl))
                    ELSE CashFlowsOp(AddCashFlow(st1, f.dst, 1, {v}, "full", f.incd, NoDef, v), bp, Tail(fl))

(* Model._ProcessExogenous: the listed variables become exogenous paths (atoms) *)
RECURSIVE ExoOp(_, _)
ExoOp(st, xs) ==
    IF xs = << >> \/ st.err # NoErr THEN st
    ELSE LET x == Head(xs)
         IN IF ~HasVar(st, x.s, x.var) THEN Fail(st, "exogenous variable does not exist")
            ELSE ExoOp([st EXCEPT !.df[<< x.s, x.var >>] = DAtom], Tail(xs))

(* the ledgers become the definitions of F and INC; FX NET ledgers likewise *)
RECURSIVE CloseLedgers(_, _, _)
CloseLedgers(st, bp, s) ==
    IF s = 0 THEN st
    ELSE IF ~HasF(bp, s) THEN CloseLedgers(st, bp, s - 1)
    ELSE LET st1 == [st EXCEPT !.df[<< s, "F" >>] = DSum(MAdd(MNorm(st.F[s]), {<< s, "LAG_F" >>}, 1)),
                               !.df[<< s, "INC" >>] = DSum(MNorm(st.INC[s]))]
         IN CloseLedgers(st1, bp, s - 1)

RECURSIVE CloseNet(_, _, _)
CloseNet(st, bp, curs) ==
    IF curs = {} THEN st
    ELSE LET c == CHOOSE x \in curs : TRUE
         IN CloseNet([st EXCEPT !.df[<< FXid(bp), "NET_" \o c >>] = DSum(MNorm(st.net[c]))], bp, curs \ {c})

FinalOp(st, bp) ==
    IF st.err # NoErr THEN st
    ELSE LET st1 == CloseLedgers(st, bp, NSec(bp))
         IN IF HasExt(bp) THEN CloseNet(st1, bp, Currencies(bp)) ELSE st1

----------------------------------------------------------------------------
(* the whole of main() as a function of (blueprint, declaration order): used by the   *)
(* trace specification and by the order-independence invariant                        *)
RECURSIVE DeclareAll(_, _, _)
DeclareAll(st, bp, decl) ==
    IF decl = << >> THEN st
    ELSE DeclareAll(PostCtor(Ctor(st, bp, Head(decl)), bp, Head(decl)), bp, Tail(decl))

RECURSIVE GenAll(_, _, _, _)
GenAll(st, bp, decl, order) ==
    IF order = << >> THEN st ELSE GenAll(Gen(st, bp, decl, Head(order)), bp, decl, Tail(order))

InitialSt(bp) == IF HasExt(bp) THEN RegisterCurrencies(EmptySt(bp), bp, Currencies(bp)) ELSE EmptySt(bp)

RunAll(bp, decl) ==
    LET st1 == LateMarkets(DeclareAll(InitialSt(bp), bp, decl), bp, NSec(bp))
        st2 == GenAll(st1, bp, decl, GenOrder(bp, decl))
        st3 == CashFlowsOp(st2, bp, bp.flows \o st2.reg)
        st4 == ExoOp(st3, bp.exo)
    IN FinalOp(st4, bp)

----------------------------------------------------------------------------
(* values in Z_P *)
Mod(x) == x % P
RECURSIVE PowMod(_, _)
PowMod(b, e) == IF e = 0 THEN 1
                ELSE LET h == PowMod(b, e \div 2)
                         sq == (h * h) % P
                     IN IF e % 2 = 1 THEN (sq * b) % P ELSE sq
Inv(x) == PowMod(Mod(x), P - 2)

AtomVal(id, tm, i) ==
    IF tm = "cur" THEN (7 * id * id + 13 * id + 5 + 31 * i) % P
    ELSE (11 * id * id + 3 * id + 17 + 29 * i) % P

RECURSIVE Den(_, _, _, _, _)
Den(st, ids, v, tm, i) ==
    IF v \notin DOMAIN st.df THEN 0
    ELSE
    LET d == st.df[v]
    IN CASE d.t \in {"empty", "zero", "const0"} -> 0
         [] d.t = "atom" -> AtomVal(ids[v], tm, i)
         [] d.t = "lag"  -> IF tm = "cur" THEN Den(st, ids, d.of, "prev", i) ELSE AtomVal(ids[v], "prev", i)
         [] d.t = "quot" -> (Den(st, ids, d.of, tm, i) * Inv(Den(st, ids, d.den, tm, i))) % P
         [] d.t = "sum"  ->
              FoldSet(LAMBDA m, acc :
                        (acc + Mod(d.terms[m]) *
                               FoldSet(LAMBDA x, pr : (pr * Den(st, ids, x, tm, i)) % P, 1, m)) % P,
                      0, DOMAIN d.terms)

DenBag(st, ids, b, tm, i) ==
    FoldSet(LAMBDA m, acc :
              (acc + Mod(b[m]) * FoldSet(LAMBDA x, pr : (pr * Den(st, ids, x, tm, i)) % P, 1, m)) % P,
            0, DOMAIN b)

IdsOf(st) == LET sq == SetToSeq(DOMAIN st.df)
             IN [v \in DOMAIN st.df |-> CHOOSE j \in 1..Len(sq) : sq[j] = v]

----------------------------------------------------------------------------
(* the state machine *)
VARIABLES bp, phase, decl, gi, st
vars == << bp, phase, decl, gi, st >>

Init == /\ bp \in Blueprints
        /\ phase = "declare" /\ decl = << >> /\ gi = 0
        /\ st = InitialSt(bp)

Declared(s) == s \in Range(decl)
DepsOf(b, s) == LET d == Sec(b, s)
                IN (IF d.tre # 0 /\ d.trector THEN {d.tre} ELSE {}) \cup Range(d.mkts)

(* a sector may be declared when the objects its constructor receives exist; sectors   *)
(* not in bp.free keep their canonical relative order                                  *)
CanDeclare(s) ==
    /\ ~Declared(s)
    /\ DepsOf(bp, s) \subseteq Range(decl)
    /\ (s \in bp.free \/ \A t \in 1..(s - 1) : (t \notin bp.free) => Declared(t))

Declare(s) ==
    /\ phase = "declare" /\ CanDeclare(s)
    /\ decl' = Append(decl, s)
    /\ st' = PostCtor(Ctor(st, bp, s), bp, s)
    /\ UNCHANGED << bp, phase, gi >>

FullCodes ==
    /\ phase = "declare" /\ Len(decl) = NSec(bp)
    /\ phase' = "gen" /\ gi' = 1
    /\ st' = LateMarkets(st, bp, NSec(bp))      \* the script's AddMarket statements, then main() starts
    /\ UNCHANGED << bp, decl >>

Generate ==
    /\ phase = "gen" /\ gi <= NSec(bp)
    /\ st' = Gen(st, bp, decl, GenOrder(bp, decl)[gi])
    /\ gi' = gi + 1
    /\ UNCHANGED << bp, phase, decl >>

CashFlows ==
    /\ phase = "gen" /\ gi = NSec(bp) + 1
    /\ st' = CashFlowsOp(st, bp, bp.flows \o st.reg)
    /\ phase' = "flows"
    /\ UNCHANGED << bp, decl, gi >>

ProcessExogenous ==
    /\ phase = "flows"
    /\ st' = ExoOp(st, bp.exo)
    /\ phase' = "exo"
    /\ UNCHANGED << bp, decl, gi >>

Finalize ==
    /\ phase = "exo"
    /\ st' = FinalOp(st, bp)
    /\ phase' = IF st.err = NoErr THEN "final" ELSE "error"
    /\ UNCHANGED << bp, decl, gi >>

Next == \/ \E s \in 1..NSec(bp) : Declare(s)
        \/ FullCodes \/ Generate \/ CashFlows \/ ProcessExogenous \/ Finalize

Spec == Init /\ [][Next]_vars

----------------------------------------------------------------------------
(* properties *)
ZoneCurrencies(b) == { c.cur : c \in Range(b.countries) }
FSectors(b, cur) == { s \in 1..NSec(b) : HasF(b, s) /\ CurOf(b, s) = cur }

(* C01: per currency, the changes in financial assets plus the FX position sum to zero *)
SFCResidual(s0, ids, b, cur, i) ==
    LET dF == FoldSet(LAMBDA s, acc :
                        (acc + Den(s0, ids, << s, "F" >>, "cur", i)
                             + P - Den(s0, ids, << s, "LAG_F" >>, "cur", i)) % P,
                      0, FSectors(b, cur))
        net == IF HasExt(b) THEN Den(s0, ids, << FXid(b), "NET_" \o cur >>, "cur", i) ELSE 0
    IN (dF + net) % P

C01_SFC == phase = "final" =>
             LET ids == IdsOf(st)
             IN \A cur \in ZoneCurrencies(bp) : \A i \in 1..2 :
                    FSectors(bp, cur) # {} => SFCResidual(st, ids, bp, cur, i) = 0

(* C07: the FX intermediary's net transactions, valued in the numeraire, sum to zero *)
C07_NumeraireValueZero == (phase = "final" /\ HasExt(bp)) =>
    LET ids == IdsOf(st)
    IN \A i \in 1..2 :
         \* summed over all currencies including the NUMERAIRE (whose book also holds the legs of senders and
         \* receivers that keep their accounts in the NUMERAIRE)
         FoldSet(LAMBDA c, acc :
                   (acc + Den(st, ids, << FXid(bp), "NET_" \o c >>, "cur", i)
                          * Den(st, ids, << XRid(bp), c >>, "cur", i)) % P,
                 0, ZoneCurrencies(bp) \cup {"NUMERAIRE"})
         = 0

C07_RefusedWithoutExternal == (phase \in {"final"} /\ ~HasExt(bp)) =>
    /\ \A i \in 1..Len(bp.flows) : CurOf(bp, bp.flows[i].src) = CurOf(bp, bp.flows[i].dst)
    /\ \A r \in Range(bp.suppliers) : CurOf(bp, r.mkt) = CurOf(bp, r.sup)

(* C04 *)
Markets(b) == { s \in 1..NSec(b) : KindOf(b, s) = "Market" }
DeclaredDemanders(s0, b, m) ==
    { t \in 1..NSec(b) : t # m /\ CurOf(b, t) = CurOf(b, m) /\
        HasVar(s0, t, IF CountryOf(b, t) = CountryOf(b, m) THEN "DEM_" \o CodeOf(b, m) ELSE "DEM_" \o FullCode(b, m)) }
DemVarOf(b, m, t) == << t, IF CountryOf(b, t) = CountryOf(b, m) THEN "DEM_" \o CodeOf(b, m) ELSE "DEM_" \o FullCode(b, m) >>

C04_MarketsClear == phase = "final" =>
    LET ids == IdsOf(st)
    IN \A m \in Markets(bp) : \A i \in 1..2 :
         LET code == CodeOf(bp, m)
             dem == Den(st, ids, << m, "DEM_" \o code >>, "cur", i)
             sup == Den(st, ids, << m, "SUP_" \o code >>, "cur", i)
             tot == FoldSet(LAMBDA t, acc : (acc + Den(st, ids, DemVarOf(bp, m, t), "cur", i)) % P,
                            0, DeclaredDemanders(st, bp, m))
             supvars == { l \in st.vt[m] : l # "SUP_" \o code /\ l # "DEM_" \o code /\ l \notin Range(Sec(bp, m).params) }
             alloc == FoldSet(LAMBDA l, acc : (acc + Den(st, ids, << m, l >>, "cur", i)) % P, 0, supvars)
         IN dem = tot /\ sup = dem /\ alloc = sup

(* every demander is debited, in its own ledger, its own demand variable with coefficient -1 *)
C04_DemandersBooked == phase = "final" =>
    \A m \in Markets(bp) : \A t \in DeclaredDemanders(st, bp, m) :
        LET v == DemVarOf(bp, m, t)
        IN HasF(bp, t) => ({v} \in DOMAIN st.F[t] /\ st.F[t][{v}] = -1)

(* C05 (closedness): every variable referred to by a definition is defined *)
RefsOf(d) == CASE d.t = "sum" -> UNION DOMAIN d.terms
               [] d.t = "lag" -> {d.of}
               [] d.t = "quot" -> {d.of, d.den}
               [] OTHER -> {}
C05_Closed == phase = "final" => \A v \in DOMAIN st.df : RefsOf(st.df[v]) \subseteq DOMAIN st.df

(* C18: no definition of one currency zone refers to a variable of another zone unless a flow or a supplier was *)
(* declared between the two zones (variables of the external sector are common to all zones)                    *)
LinkedZones(b) ==
    { {CurOf(b, f.src), CurOf(b, f.dst)} : f \in Range(b.flows) } \cup { {CurOf(b, r.mkt), CurOf(b, r.sup)} : r \in Range(b.suppliers) }
C18_ZoneIsolation == phase = "final" =>
    \A v \in DOMAIN st.df : v[1] <= NSec(bp) =>
        \A u \in RefsOf(st.df[v]) : u[1] <= NSec(bp) =>
            (CurOf(bp, u[1]) = CurOf(bp, v[1]) \/ {CurOf(bp, u[1]), CurOf(bp, v[1])} \in LinkedZones(bp))

(* C08: the final state is a function of the blueprint, not of the declaration order *)
CanonOrder(b) == [i \in 1..NSec(b) |-> i]
NormSt(s0) == [vt |-> s0.vt, df |-> s0.df, F |-> [s \in DOMAIN s0.F |-> MNorm(s0.F[s])],
               INC |-> [s \in DOMAIN s0.INC |-> MNorm(s0.INC[s])], err |-> s0.err]
C08_OrderIndependent ==
    /\ phase = "final" => NormSt(st) = NormSt(RunAll(bp, CanonOrder(bp)))
    /\ phase = "error" => RunAll(bp, CanonOrder(bp)).err # NoErr

(* the action-level pipeline and the functional form agree (sanity of the spec itself) *)
PipelineIsRunAll ==
    /\ phase = "final" => NormSt(st) = NormSt(RunAll(bp, decl))
    /\ phase = "error" => RunAll(bp, decl).err # NoErr

(* C11 (model part): an ill-formed blueprint ends in phase "error", a well-formed one in "final" *)
C11_IllFormedRejected == phase = "final" => bp.wellformed
C11_WellFormedBuilds == phase = "error" => ~bp.wellformed

TypeOK == /\ phase \in {"declare", "gen", "flows", "exo", "final", "error"}
          /\ Len(decl) <= NSec(bp)
=============================================================================
