----------------------------- MODULE Names_Trace -----------------------------
(* Trace validation for Names: requests made on a real model before main() and, through a user-defined  *)
(* sector, inside main() after full codes exist; then the emitted equations are scanned.                 *)
EXTENDS Names, Json, IOUtils
Log == ndJsonDeserialize(IOEnv.TRACE_FILE)
VARIABLES l, fails
tvars == << vars, l, fails >>

RECURSIVE JoinSet(_)
JoinSet(S) == IF S = {} THEN "" ELSE LET x == CHOOSE y \in S : TRUE IN x \o "," \o JoinSet(S \ {x})

TraceInit == Init /\ l = 1 /\ fails = {}

TraceNext ==
    /\ l <= Len(Log)
    /\ l' = l + 1
    /\ LET e == Log[l] IN
       \/ /\ e.ev = "Request"
          /\ IF e.when = "coded" /\ phase = "construct"
             THEN /\ phase' = "coded"          \* FullCodes happened inside main() before this request
                  /\ aliases' = aliases
                  /\ embedded' = Append(embedded, [place |-> e.place, var |-> e.var, placeholder |-> FALSE])
                  /\ emitted' = emitted
                  /\ asked' = Append(asked, [place |-> e.place, var |-> e.var, placeholder |-> FALSE])
             ELSE RequestAndEmbed(e.var, e.place)
          /\ fails' = fails \cup (IF e.got_placeholder # embedded'[Len(embedded')].placeholder
                                  THEN {"drift_placeholder_handed_out"} ELSE {})
       \/ /\ e.ev = "Main"
          /\ phase' = "final"
          /\ embedded' = FixAliasesOp(embedded)
          /\ emitted' = embedded'
          /\ aliases' = aliases
          /\ asked' = asked
          /\ fails' = fails
                \cup (IF ~e.main_ok THEN {"drift_main_raised"} ELSE {})
                \cup (IF e.main_ok /\ ~e.no_placeholder THEN {"C05_NoPlaceholder"} ELSE {})
                \cup (IF e.main_ok /\ ~e.closed THEN {"C05_Closed"} ELSE {})
                \cup (IF e.main_ok /\ ~e.canonical THEN {"C05_Canonical"} ELSE {})
                \cup (IF e.main_ok /\ ~e.defined_once THEN {"C05_DefinedOnce"} ELSE {})
                \cup (IF e.main_ok /\ ~e.meaning THEN {"C05_MeaningPreserved"} ELSE {})
                \cup (IF e.main_ok /\ (e.no_placeholder # (\A i \in 1..Len(emitted') : ~emitted'[i].placeholder))
                      THEN {"drift_fixaliases"} ELSE {})
       \/ /\ e.ev = "End"
          /\ PrintT(<< "VERDICT", e.tid, "clauses:" \o JoinSet(fails) >>)
          /\ fails' = {}
          /\ phase' = "construct" /\ aliases' = {} /\ embedded' = << >> /\ emitted' = << >> /\ asked' = << >>
TraceSpec == TraceInit /\ [][TraceNext]_tvars
AllConsumed == TLCGet("stats").diameter - 1 = Len(Log)
=============================================================================
