SPECIFICATION TraceSpec
CONSTANTS
  MaxBefore = 0
  MaxAfter = 0
  MaxBeforeMarket = 0
POSTCONDITION AllConsumed
CHECK_DEADLOCK FALSE
