------------------------------- MODULE Parser -------------------------------
(* sfc_models/equation_parser.py: EquationParser.ParseString - the line loop that     *)
(* sorts the lines of an equation block into classes.                                  *)
(*                                                                                    *)
(* One action per line FORM, Finish (ParseString returns) and Begin (ParseString is called *)
(* again on the same object: block B after block A).                                       *)
(* One action per line FORM.  A form is a record                                       *)
(*   [kind, v, r, cc, sp]                                                              *)
(*   kind  "eq"       v = <r>                   simultaneous equation                  *)
(*         "lag1"     v = r(k-1)                lag, spelled X(k-1)                    *)
(*         "lag2"     v = r(t-1)                lag, spelled X(t-1)                    *)
(*         "lag3"     v = r (k -1 )             lag, tokenizer-spaced (model output)   *)
(*         "ic"       v(0) = r                  initial condition                      *)
(*         "maxtime"  MaxTime = r               run parameter                          *)
(*         "errtol"   Err_Tolerance = r         run parameter                          *)
(*         "usert"    t = r                     user-defined time axis                 *)
(*         "marker"   # Exogenous Variables     the section marker the model emits     *)
(*         "comment"  # <text>                  comment-only line                      *)
(*         "blank"                                                                     *)
(*         "noeq"     <r>                       malformed: no '='                      *)
(*         "badmax"   MaxTime = r               malformed value (not an integer)       *)
(*         "baderr"   Err_Tolerance = r         malformed value (not a number)         *)
(*         "multieq"  v = r = 2                 malformed: several '='                 *)
(*   v     left-hand variable ("" when there is none)                                  *)
(*   r     right-hand-side id = the right-hand side written without white space        *)
(*   cc    class of the trailing comment: none | plain | eq ('=' inside) | hash ('#'   *)
(*         inside) | digits | exo (contains the word 'exogenous') | sepeq | sepic |    *)
(*         sepexo | sepplain (a non-'\n' line-separator character, then text; see      *)
(*         SepClasses)                                                                 *)
(*   sp    spacing around '=' and the operators: tight | one | wide                    *)
(* Spacing and comment text are spelled out by the replay driver (harness/checks/      *)
(* c14.py); the abstract effect of a line does not depend on them - that is the        *)
(* property.                                                                           *)
(*                                                                                    *)
(* LineOp(s, f) / FinishOp(s) are the single source of truth: the actions below and    *)
(* the trace specification Parser_Trace both use them.                                 *)
(*                                                                                    *)
(* AsFound_MarkerTestedOnRawLine = TRUE models the pinned code: the substring test     *)
(* for 'exogenous' runs on the raw line, trailing comment included, so a line whose    *)
(* comment contains the word is dropped and switches to the exogenous section.         *)
(* FALSE is what property C14 needs (comment stripped first).                          *)
(*                                                                                    *)
(* Reading of "exogenous (after the section marker)": after the marker every           *)
(* one-'=' line that is not a run parameter belongs to the exogenous class, whatever   *)
(* its spelling (this is the weaker reading, and what the code does).                  *)
EXTENDS Integers, Sequences, FiniteSets, TLC

CONSTANTS
    LineForms,      \* the alphabet: set of forms
    FirstForms,     \* forms admitted as the first line of a block
    MaxLines,       \* bound on the number of lines (of all blocks together)
    MaxBlocks,      \* bound on the number of ParseString calls on the one parser object
    AsFound_MarkerTestedOnRawLine

Kinds == {"eq", "lag1", "lag2", "lag3", "ic", "maxtime", "errtol", "usert",
          "marker", "comment", "blank", "noeq", "multieq", "badmax", "baderr"}
(* sep*: the free text holds a character that some line-splitting routines take for a line  *)
(* end although it is not '\n' (form feed, vertical tab, FS/GS/RS, NEL, U+2028, U+2029, a bare *)
(* CR - the driver goes through all of them), followed by equation-like (sepeq), initial-      *)
(* condition-like (sepic), marker-like (sepexo) or plain (sepplain) text.  For the equation    *)
(* block such a comment / description is one line of free text like any other.                *)
SepClasses == {"sepeq", "sepic", "sepexo", "sepplain"}
BaseClasses == {"none", "plain", "eq", "hash", "digits", "exo"}
(* tag classes: the library's own internal tags, markers and parameter names in the free text: *)
(* the word in the other case variants (exoU 'EXOGENOUS' = the tag Model puts on exogenous     *)
(* right-hand sides, exoM 'Exogenous'), the marker line itself ('# Exogenous Variables',       *)
(* tagline), 'MaxTime = ..' (pmax), 'Err_Tolerance = ..' (ptol)                                 *)
TagClasses == {"exoU", "exoM", "tagline", "pmax", "ptol"}
MarkerWordClasses == {"exo", "exoU", "exoM", "tagline"}     \* the lower-cased text contains 'exogenous'
(* end*: the free text ENDS in characters that mean "the line goes on" to a line joiner: a     *)
(* backslash (endbs), an operator / comma / open bracket (endop), an ellipsis '...', '&', '_',   *)
(* '^' (enddots).  What matters is the line that FOLLOWS such a comment: it is a line of its own.*)
EndClasses == {"endbs", "endop", "enddots"}
CommentClasses == BaseClasses \cup SepClasses \cup TagClasses \cup EndClasses
Spacings == {"tight", "one", "wide"}

OneEq     == {"eq", "lag1", "lag2", "lag3", "ic", "maxtime", "errtol", "usert"}   \* well-formed
LagKinds  == {"lag1", "lag2", "lag3"}
Params    == {"maxtime", "errtol"}
Malformed == {"noeq", "multieq"}
(* a run-parameter line whose value is not a value of the parameter: MaxTime = 2.5 / 25e-1 / *)
(* CAT (not an integer literal), Err_Tolerance = CAT (not a number).  The code reports it    *)
(* by raising ValueError: ParseString stops there (mode "raised"), no later line is read.    *)
BadParams == {"badmax", "baderr"}

IsForm(f) ==
    /\ DOMAIN f = {"kind", "v", "r", "cc", "sp"}
    /\ f.kind \in Kinds /\ f.cc \in CommentClasses /\ f.sp \in Spacings
    /\ f.kind \in {"marker", "blank"} => f.cc = "none"
    \* comment-only lines that merely mention the marker word are not generated
    /\ f.kind = "comment" => f.cc \notin ({"none", "sepexo"} \cup MarkerWordClasses)
    /\ f.kind = "usert" => f.v = "t"
    /\ f.kind \in {"maxtime", "badmax"} => f.v = "MaxTime"
    /\ f.kind \in {"errtol", "baderr"} => f.v = "Err_Tolerance"

ASSUME \A f \in LineForms \cup FirstForms : IsForm(f)
ASSUME AsFound_MarkerTestedOnRawLine \in BOOLEAN /\ MaxLines \in Nat /\ MaxBlocks \in Nat

WellFormed(f) == f.kind \in OneEq
(* a line that defines the time axis ('t(0) = ..' does not) *)
(* the code also takes a definition of 't_minus_1' as "the user gives the time axis"   *)
IsUserT(f) == f.kind \in (OneEq \ {"ic"}) /\ f.v \in {"t", "t_minus_1"}
DefinesT(f) == f.kind \in (OneEq \ {"ic"}) /\ f.v = "t"

(* the same line without its trailing comment; a comment-only line becomes a blank one; *)
(* the section marker is not a comment in the sense of the property                     *)
NoComment(f) ==
    IF f.kind = "comment" THEN [kind |-> "blank", v |-> "", r |-> "", cc |-> "none", sp |-> f.sp]
    ELSE [f EXCEPT !.cc = "none"]

Entry(v, r) == [var |-> v, rhs |-> r]
DefaultT == Entry("t", "k")

(* what lands in the Exogenous list is the line verbatim (white space removed) *)
LagSuffix(k) == IF k = "lag2" THEN "(t-1)" ELSE "(k-1)"
ExoVar(f) == IF f.kind = "ic" THEN f.v \o "(0)" ELSE f.v
ExoRhs(f) == IF f.kind \in LagKinds THEN f.r \o LagSuffix(f.kind) ELSE f.r

----------------------------------------------------------------------------
(* parser state as a record *)
S0 == [mode |-> "endogenous", foundT |-> FALSE,
       Endogenous |-> << >>, Lagged |-> << >>, Exogenous |-> << >>,
       InitialConditions |-> {},           \* set of entries, at most one per variable (a dict)
       MaxTime |-> "0", ErrTol |-> "1e-8",
       msgs |-> << >>,                     \* kinds of the reported malformed lines
       cls |-> << >>]                      \* what was done with each line (history)

IcPut(ic, v, r) == { e \in ic : e.var # v } \cup { Entry(v, r) }

Done(s, c) == [s EXCEPT !.cls = Append(@, c)]

LineOp(s, f) ==
    IF s.mode = "raised"
    THEN Done(s, "skipped")                                      \* ParseString has raised already
    ELSE IF f.kind = "marker"
    THEN Done([s EXCEPT !.mode = "exogenous"], "marker")
    ELSE IF AsFound_MarkerTestedOnRawLine /\ f.cc \in MarkerWordClasses
    THEN Done([s EXCEPT !.mode = "exogenous"], "dropped")        \* the defect
    ELSE CASE f.kind \in {"comment", "blank"} -> Done(s, "none")
           [] f.kind = "noeq"    -> Done([s EXCEPT !.msgs = Append(@, "noeq")], "none")
           [] f.kind = "multieq" -> Done([s EXCEPT !.msgs = Append(@, "multi")], "none")
           [] f.kind = "maxtime" -> Done([s EXCEPT !.MaxTime = f.r], "param")
           [] f.kind = "errtol"  -> Done([s EXCEPT !.ErrTol = f.r], "param")
           [] f.kind \in BadParams -> Done([s EXCEPT !.mode = "raised"], "reported")
           [] OTHER ->
                LET s1 == IF IsUserT(f) THEN [s EXCEPT !.foundT = TRUE] ELSE s
                IN IF s.mode = "exogenous"
                   THEN Done([s1 EXCEPT !.Exogenous = Append(@, Entry(ExoVar(f), ExoRhs(f)))], "exo")
                   ELSE IF f.kind = "ic"
                   THEN Done([s1 EXCEPT !.InitialConditions = IcPut(@, f.v, f.r)], "ic")
                   ELSE IF f.kind \in LagKinds
                   THEN Done([s1 EXCEPT !.Lagged = Append(@, Entry(f.v, f.r))], "lag")
                   ELSE Done([s1 EXCEPT !.Endogenous = Append(@, Entry(f.v, f.r))], "sim")

FinishOp(s) == IF s.foundT \/ s.mode = "raised" THEN s ELSE [s EXCEPT !.Endogenous = Append(@, DefaultT)]

(* a further ParseString call on the same object starts from scratch: nothing that an   *)
(* earlier block put into the object survives (the classification is a function of the *)
(* block alone)                                                                        *)
BeginOp(s) == S0

RECURSIVE RunLines(_, _)
RunLines(s, fs) == IF fs = << >> THEN s ELSE RunLines(LineOp(s, Head(fs)), Tail(fs))

----------------------------------------------------------------------------
VARIABLES mode, foundT, Endogenous, Lagged, Exogenous, InitialConditions, MaxTime, ErrTol,
          msgs, cls,
          hist,     \* the line forms of the current block processed so far (history)
          done,     \* ParseString has returned
          blocks    \* the blocks of the earlier ParseString calls on this object (history)

pvars == << mode, foundT, Endogenous, Lagged, Exogenous, InitialConditions, MaxTime, ErrTol, msgs, cls >>
vars == << pvars, hist, done, blocks >>

Cur == [mode |-> mode, foundT |-> foundT, Endogenous |-> Endogenous, Lagged |-> Lagged,
        Exogenous |-> Exogenous, InitialConditions |-> InitialConditions, MaxTime |-> MaxTime,
        ErrTol |-> ErrTol, msgs |-> msgs, cls |-> cls]

Become(s) == /\ mode' = s.mode /\ foundT' = s.foundT /\ Endogenous' = s.Endogenous
             /\ Lagged' = s.Lagged /\ Exogenous' = s.Exogenous
             /\ InitialConditions' = s.InitialConditions /\ MaxTime' = s.MaxTime
             /\ ErrTol' = s.ErrTol /\ msgs' = s.msgs /\ cls' = s.cls

Is(s) == /\ mode = s.mode /\ foundT = s.foundT /\ Endogenous = s.Endogenous
         /\ Lagged = s.Lagged /\ Exogenous = s.Exogenous
         /\ InitialConditions = s.InitialConditions /\ MaxTime = s.MaxTime
         /\ ErrTol = s.ErrTol /\ msgs = s.msgs /\ cls = s.cls

Init == Is(S0) /\ hist = << >> /\ done = FALSE /\ blocks = << >>

RECURSIVE SumLen(_)
SumLen(bs) == IF bs = << >> THEN 0 ELSE Len(Head(bs)) + SumLen(Tail(bs))
TotalLines == SumLen(blocks) + Len(hist)

Line(f) == /\ ~done
           /\ TotalLines < MaxLines
           /\ Become(LineOp(Cur, f))
           /\ hist' = Append(hist, f)
           /\ UNCHANGED << done, blocks >>

Finish == /\ ~done
          /\ Become(FinishOp(Cur))
          /\ done' = TRUE
          /\ UNCHANGED << hist, blocks >>

(* ParseString is called again on the same parser object *)
Begin == /\ done
         /\ Len(blocks) + 1 < MaxBlocks
         /\ Become(BeginOp(Cur))
         /\ blocks' = Append(blocks, hist)
         /\ hist' = << >>
         /\ done' = FALSE

Next == \/ /\ ~done /\ TotalLines < MaxLines          \* (the guard of Line, tested once)
           /\ \E f \in LineForms : (Len(hist) = 0 => f \in FirstForms) /\ Line(f)
        \/ Finish
        \/ Begin

Spec == Init /\ [][Next]_vars

----------------------------------------------------------------------------
(* C14, stated on the history of lines - independently of how LineOp works *)

MarkerBefore(h, i) == \E j \in 1..(i - 1) : h[j].kind = "marker"

(* the class the property assigns to line i of block h *)
ExpClass(h, i) ==
    LET f == h[i] IN
    IF ~WellFormed(f) THEN (IF f.kind = "marker" THEN "marker" ELSE "none")
    ELSE IF f.kind \in Params THEN "param"
    ELSE IF MarkerBefore(h, i) THEN "exo"
    ELSE IF f.kind = "ic" THEN "ic"
    ELSE IF f.kind \in LagKinds THEN "lag"
    ELSE "sim"

ExpEntry(h, i) == IF ExpClass(h, i) = "exo" THEN Entry(ExoVar(h[i]), ExoRhs(h[i]))
                  ELSE Entry(h[i].v, h[i].r)

(* entries of the lines 1..n of h whose class is c, in order *)
RECURSIVE Pick(_, _, _)
Pick(h, n, c) == IF n = 0 THEN << >>
                 ELSE IF ExpClass(h, n) = c THEN Append(Pick(h, n - 1, c), ExpEntry(h, n))
                 ELSE Pick(h, n - 1, c)

(* last line of kind k decides a parameter / an initial condition *)
RECURSIVE LastParam(_, _, _, _)
LastParam(h, n, k, dflt) == IF n = 0 THEN dflt
                            ELSE IF h[n].kind = k THEN h[n].r ELSE LastParam(h, n - 1, k, dflt)

RECURSIVE IcOf(_, _)
IcOf(h, n) == IF n = 0 THEN {}
              ELSE IF ExpClass(h, n) = "ic" THEN IcPut(IcOf(h, n - 1), h[n].v, h[n].r)
              ELSE IcOf(h, n - 1)

RECURSIVE MsgsOf(_, _)
MsgsOf(h, n) == IF n = 0 THEN << >>
                ELSE IF h[n].kind = "noeq" THEN Append(MsgsOf(h, n - 1), "noeq")
                ELSE IF h[n].kind = "multieq" THEN Append(MsgsOf(h, n - 1), "multi")
                ELSE MsgsOf(h, n - 1)

HasUserT(h) == \E i \in 1..Len(h) : IsUserT(h[i])
NumDefT(h) == Cardinality({ i \in 1..Len(h) : DefinesT(h[i]) })      \* lines that define t itself

VarsOf(s) == [i \in 1..Len(s) |-> s[i].var]
Range(s) == { s[i] : i \in 1..Len(s) }
CountVar(s, v) == Cardinality({ i \in 1..Len(s) : s[i].var = v })

(* a malformed run-parameter value ends the call: only the lines before it count *)
FirstBad(h) == IF \E i \in 1..Len(h) : h[i].kind \in BadParams
               THEN CHOOSE i \in 1..Len(h) : /\ h[i].kind \in BadParams
                                             /\ \A j \in 1..(i - 1) : h[j].kind \notin BadParams
               ELSE 0
Raised == mode = "raised"

(* the user's part of the simultaneous list: without the time axis Finish supplies *)
UserEndo == IF done /\ ~Raised /\ ~HasUserT(hist) /\ Len(Endogenous) > 0 /\ Endogenous[Len(Endogenous)] = DefaultT
            THEN SubSeq(Endogenous, 1, Len(Endogenous) - 1) ELSE Endogenous

N == IF FirstBad(hist) = 0 THEN Len(hist) ELSE FirstBad(hist) - 1      \* lines that count

(* every well-formed line is in the list of its class and in no other *)
C14_ExactlyOneClass ==
    /\ Len(cls) = Len(hist)
    /\ \A i \in 1..N : WellFormed(hist[i]) => cls[i] = ExpClass(hist, i)
    /\ VarsOf(UserEndo) = VarsOf(Pick(hist, N, "sim"))
    /\ VarsOf(Lagged) = VarsOf(Pick(hist, N, "lag"))
    /\ VarsOf(Exogenous) = VarsOf(Pick(hist, N, "exo"))
    /\ { e.var : e \in InitialConditions } = { e.var : e \in IcOf(hist, N) }
    /\ MaxTime = LastParam(hist, N, "maxtime", "0")
    /\ ErrTol = LastParam(hist, N, "errtol", "1e-8")

(* with the right-hand side it was written with *)
C14_MeaningUnchanged ==
    /\ UserEndo = Pick(hist, N, "sim")
    /\ Lagged = Pick(hist, N, "lag")
    /\ Exogenous = Pick(hist, N, "exo")
    /\ InitialConditions = IcOf(hist, N)

TCount == CountVar(Endogenous, "t") + CountVar(Lagged, "t") + CountVar(Exogenous, "t")

C14_TimeSupplied ==
    (done /\ ~Raised) =>
        /\ ~HasUserT(hist) => /\ Len(Endogenous) > 0
                              /\ Endogenous[Len(Endogenous)] = DefaultT
                              /\ TCount = 1
        \* nothing is added to what the user wrote (whatever class the user's t is in)
        /\ HasUserT(hist) => TCount = NumDefT(hist)

(* a malformed line adds one message and nothing else *)
C14_MalformedReported ==
    \* a run-parameter line with a malformed value is reported (the call raises) and read as nothing
    /\ Raised <=> FirstBad(hist) # 0
    /\ \A i \in 1..Len(hist) : i > N => cls[i] = (IF i = N + 1 THEN "reported" ELSE "skipped")
    /\ msgs = MsgsOf(hist, N)
    /\ \A i \in 1..N : hist[i].kind \in Malformed => cls[i] = "none"

(* what a call reports is a function of its block alone: the state of a fresh parser that *)
(* was given the same block, whatever blocks the object parsed before                     *)
C14_BlockAlone == Cur = (IF done THEN FinishOp(RunLines(S0, hist)) ELSE RunLines(S0, hist))

(* processing a line with any trailing comment = processing it without *)
Commented == { f \in LineForms : f.cc # "none" }      \* for the others the claim is trivial
(* (stated for the states in which ParseString can still be given a line)                 *)
C14_CommentsInert ==
    (~done /\ TotalLines < MaxLines) =>
        LET s == Cur IN \A f \in Commented : LineOp(s, f) = LineOp(s, NoComment(f))

TypeOK == /\ mode \in {"endogenous", "exogenous", "raised"}
          /\ foundT \in BOOLEAN /\ done \in BOOLEAN
          /\ Len(hist) <= MaxLines
          /\ \A i \in 1..Len(hist) : hist[i] \in LineForms
=============================================================================
