SPECIFICATION Spec
CONSTANTS
  Blueprints <- TwoCapsWellFormed
  AsFound_LabourDemandLate = FALSE
  AsFound_LiteralSupGood = FALSE
  AsFound_DividendsPerPayer = FALSE
  AsFound_FirstRecipient = TRUE
INVARIANT TypeOK
INVARIANT C08_OrderIndependent
CHECK_DEADLOCK FALSE
