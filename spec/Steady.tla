------------------------------- MODULE Steady -------------------------------
(* sfc_models/equation_solver.py: EquationSolver.CalculateInitialSteadyState()         *)
(* (the optional search for an initial steady state) and _GetCopy().                    *)
(*                                                                                    *)
(* One action per critical section of the call:                                       *)
(*   Copy             new_solver = self._GetCopy()                (deep copy)           *)
(*   FreezeExogenous  copy: MaxTime := T, cap 1000, tolerance := tol, every exogenous  *)
(*                    series := its k=0 value, time axis := -T..0                       *)
(*   Run(res, c)      for step in 1..T: new_solver.SolveStep(step)                      *)
(*                      res = "ok"     all T steps solved; c = for every series the    *)
(*                                     class of its final two values (prev, last)      *)
(*                      res = "conv"   ConvergenceError in some step                   *)
(*                      res = "valerr" a ValueError of SolveStep (persistent           *)
(*                                     evaluation error)                               *)
(*                      res = "other"  any other exception (only for systems that are  *)
(*                                     not well formed, e.g. an undefined name)        *)
(*   Judge(v)         the body of the acceptance loop for one non-excluded series      *)
(*                    (a series judged good gets its k=0 value installed at once)      *)
(*   Install          no bad series: return the copy                                   *)
(*   Reject           some bad series: raise NoEquilibriumError                        *)
(*   Raise            conv -> ValueError('No convergence in initial equilibrium'),     *)
(*                    valerr / other -> the exception of SolveStep, re-raised          *)
(*                                                                                    *)
(* A series is abstracted to the class of its final two values on a signed grid in     *)
(* units of the tolerance tol (ParameterInitialSteadyStateErrorToler) and of the       *)
(* near-zero threshold Z = 1e-4 that is hard-wired in the code:                        *)
(*   magnitude of prev and of last:  "nL" <= -Z < "ne" < 0 = "z" < "pe" < Z <= "pL"     *)
(*   drift |last - prev|:  "zero"      = 0                                             *)
(*                         "small"     <= tol                       (absolute)         *)
(*                         "rel_small" > tol but <= tol * |last|    (needs |last| > 1)  *)
(*                         "large"     > tol and > tol * |last|                        *)
(*   stays (BOOLEAN): where both values are near zero and the drift is large, whether   *)
(*                    the NEXT value (one more period) is still below Z; TRUE elsewhere  *)
(* The classes are the truth about the real numbers; JudgeBad is the code's test.      *)
(* Abstraction: the drift class of a series persists for one more period (its          *)
(* dynamics do not jump classes), except that a near-zero value may leave the band     *)
(* |x| < Z - that is what `stays` records.                                             *)
(*                                                                                    *)
(* The exclusion option.  Every series has a NAME, a sequence of characters; the        *)
(* option ParameterInitialSteadyStateExcludedVariables is a set of names (names of      *)
(* series, names of their lags, names of nothing at all), to which the code adds 'k'.    *)
(* The acceptance loop skips a series iff its name IS one of these names; names that    *)
(* merely occur inside an excluded name (y next to an excluded y_total, LAG_y next to   *)
(* LAG_y_total) or that contain one are judged.  `excluded` is the set of series the     *)
(* loop skips; the judged set must be exactly the other series.                        *)
(*                                                                                    *)
(* Kinds.  Every series has the kind the parser gave its variable: "solved" (Parser.     *)
(* Endogenous), "lagged" (Parser.Lagged), "decorative" (Parser.Decoration: with equation  *)
(* reduction on, a variable nothing else refers to), "exogenous".  The acceptance test   *)
(* and the installation make no difference between kinds: a decorative series is a      *)
(* function of the solved ones, but its CLASS is its own (gap = debt - target: the same   *)
(* absolute drift at a small level fails the relative test that the large stock passes). *)
(*                                                                                    *)
(* Time.  The search runs its copy along the time axis k = -T..0 (FreezeExogenous        *)
(* builds it AFTER freezing the exogenous series - k is one of them), so that the state  *)
(* it tests and installs belongs to k = 0.  A series may depend on time (`tdep`):        *)
(*   "none"     its equation mentions neither k nor t                                   *)
(*   "settled"  it mentions k or t, but only through a schedule / dated switch that is    *)
(*              over before the last periods of the search (same value for all k >= -M)  *)
(*   "trend"    it keeps changing with k (20*pow(1.02, k)): never steady                *)
(* The class of a series is the one it has on the proper axis.  If the axis is a         *)
(* constant (-T in every period) a time-dependent series is seen at rest, at a level      *)
(* that is no rest point at k = 0.                                                       *)
(*                                                                                    *)
(* The solver's own tolerance.  ParameterErrorTolerance (`steptol`) is the accuracy to   *)
(* which every period is solved: "none" (not set), "finer" or "coarser" than the         *)
(* steady-state tolerance.  The acceptance test uses the steady-state tolerance whatever *)
(* the step tolerance is.  Where the step tolerance is coarser a class with large drift   *)
(* carries one more bit, `loose`: the last change is within the COARSER tolerance        *)
(* (absolutely or relative to |last|) although it exceeds the steady-state one.          *)
(*                                                                                    *)
(* The search horizon T (ParameterInitialSteadyStateMaxTime) is part of the state as     *)
(* `horizon`: "one" (a single computed period: the previous value of every series is its *)
(* initial condition), "two", "many".  The final two values of a series are compared     *)
(* whatever the horizon is.  (T = 0 gives no pair of values at all: see c15.py.)         *)
(* The operators JudgeBad / SteadyClass and the actions are the single source of truth *)
(* for Steady_Trace.                                                                   *)
EXTENDS Integers, Sequences, FiniteSets, TLC

CONSTANTS
    Schemes,         \* the systems of the bounded instance: set of records
                     \*   [id, names : sequence of names (one per series), kinds : sequence of kinds,
                     \*    tdep : sequence of time dependences, steptol : the solver's own tolerance option,
                     \*    horizon : the search horizon,
                     \*    grid : sequence, grid[i] = set of classes series i may end in,
                     \*    excls : set of sets of names the user may exclude]
    AllowMalformed,  \* BOOLEAN: also systems that are not well formed (Run may fail with any exception)
    AsFound_AcceptanceUsesStepTolerance,
                     \* TRUE: a seeded variant: the acceptance test compares with
                     \*       max(steady-state tolerance, ParameterErrorTolerance).  FALSE: the code.
    AsFound_ShortHorizonNotCompared,
                     \* TRUE: a seeded variant: with a single computed period the previous value is taken to be
                     \*       the last one, so nothing is ever rejected.  FALSE: the code.
    AsFound_TimeAxisFrozen,
                     \* TRUE: a seeded variant: the axis -T..0 is built BEFORE the loop that freezes every exogenous
                     \*       series, which then overwrites it with the constant -T.  FALSE: the code.
    AsFound_DecorativeUntested,
                     \* TRUE: a seeded variant: a decorative series is installed without being tested.
    AsFound_DecorativeExcluded,
                     \* TRUE: a seeded variant: decorative series are put on the exclusion list (neither tested
                     \*       nor installed).  FALSE (both): kinds are treated alike (the code).
    AsFound_ExclusionBySubstring,
                     \* TRUE: a seeded variant of the code: the exclusion list is joined into one string, so a
                     \*       series is skipped as soon as its name occurs INSIDE an excluded name.
                     \*       FALSE: list membership (the code).
    AsFound_SignedRelativeTest,
                     \* TRUE: the pinned code: err = abs(lastval-prev)/lastval (signed), so a negative
                     \*       value always passes the relative test.  FALSE: divides by the magnitude.
    AsFound_NearZeroBandIgnoresDrift
                     \* TRUE: the code: with |last| < Z and |last-prev| > tol the series is accepted as soon
                     \*       as |prev| < Z too, however fast it moves.  FALSE: it is bad (for |last| < Z and
                     \*       |last-prev| > tol the relative error exceeds 1e-2 >= tol anyway).

Mags   == {"nL", "ne", "z", "pe", "pL"}
Drifts == {"zero", "small", "rel_small", "large"}

NearZero(m) == m \in {"ne", "z", "pe"}
IsLarge(m)  == m \in {"nL", "pL"}

(* which (prev, last, drift) triples exist at all *)
BandCase(c) == NearZero(c.prev) /\ NearZero(c.last) /\ c.drift = "large"
ClassOK(c) ==
    /\ ~BandCase(c) => c.stays
    /\ c.loose => c.drift = "large"
    /\ c.drift = "zero" => c.prev = c.last
    /\ (c.prev = "z" /\ c.last = "z") => c.drift = "zero"
    /\ c.drift = "rel_small" => (IsLarge(c.last) /\ c.prev = c.last)
AllClasses == { c \in [prev : Mags, last : Mags, drift : Drifts, stays : BOOLEAN, loose : {FALSE}] : ClassOK(c) }
(* with a coarser step tolerance: every class with large drift also in its `loose` flavour *)
LooseOf(S) == S \cup { [c EXCEPT !.loose = TRUE] : c \in { d \in S : d.drift = "large" } }

----------------------------------------------------------------------------
(* The acceptance test, in the order of the code:                                     *)
(*   if abs(lastval-prev) > tol:                                                      *)
(*       if abs(lastval) < 1e-4:   bad iff not abs(prev) < 1e-4      (as found)        *)
(*       else:                     bad iff abs(lastval-prev)/abs(lastval) > tol       *)
AbsDiffExceedsTol(c) == /\ c.drift \in {"rel_small", "large"}
                        /\ ~(AsFound_AcceptanceUsesStepTolerance /\ c.loose)   \* within the coarser tolerance

RelErrExceedsTol(c) ==
    IF AsFound_SignedRelativeTest
    THEN c.drift = "large" /\ c.last = "pL"     \* a negative quotient is never > tol
    ELSE c.drift = "large"

JudgeBad(c) ==
    /\ AbsDiffExceedsTol(c)
    /\ IF NearZero(c.last)
       THEN (IF AsFound_NearZeroBandIgnoresDrift THEN ~NearZero(c.prev) ELSE TRUE)
       ELSE RelErrExceedsTol(c)

(* what C15 calls steady, on the final two values (and, inside the near-zero band, the next one) *)
SteadyClass(c) ==
    \/ c.drift \in {"zero", "small"}                    \* |last - prev| <= tol
    \/ (NearZero(c.prev) /\ NearZero(c.last) /\ c.stays) \* below the near-zero threshold, and staying there
    \/ c.drift = "rel_small"                            \* |last - prev| <= tol * |last|

----------------------------------------------------------------------------
(* the outer solver as far as C15 speaks about it: identities of its equations (parser *)
(* lists and EquationString), of its exogenous paths and its horizon (MaxTime)         *)
(* names and the exclusion option *)
KName     == << "k" >>
TName     == << "t" >>
LagPrefix == << "L", "A", "G", "_" >>
LagOf(nm) == LagPrefix \o nm
IsSubstr(a, b) == /\ Len(a) <= Len(b)
                  /\ \E i \in 0..(Len(b) - Len(a)) : SubSeq(b, i + 1, i + Len(a)) = a
(* what a user who wants the variables `ex` left out writes: their names, the names of their lags, and 't' *)
OptionOf(ex) == {TName} \cup ex \cup { LagOf(e) : e \in ex }
IsExcludedName(nm, opt) == nm \in (opt \cup {KName})
SkipsName(nm, opt) ==
    IF AsFound_ExclusionBySubstring
    THEN \E o \in (opt \cup {KName}) : IsSubstr(nm, o)     \* nm in ' '.join(list): names hold no blank
    ELSE IsExcludedName(nm, opt)
Kinds == {"solved", "lagged", "decorative", "exogenous"}
SkippedSet(nms, kds, opt) ==
    { v \in 1..Len(nms) : SkipsName(nms[v], opt) \/ (AsFound_DecorativeExcluded /\ kds[v] = "decorative") }

Outer0  == [eq |-> 1, exo |-> 1, hor |-> 1]
NoCopy  == [eq |-> 0, exo |-> 0, hor |-> 0, axis |-> "none"]
TDeps   == {"none", "settled", "trend"}
StepTols == {"none", "finer", "coarser"}
Horizons == {"one", "two", "many"}
FrozenExo == 2      \* identity of "every exogenous series constant at its k=0 value"
SearchHor == 2      \* identity of the search horizon T

VARIABLES
    phase,      \* "idle" | "copied" | "frozen" | "ran" | "judging" | "installed" | "rejected" | "raised"
    n,          \* number of series of the system
    names,      \* sequence (length n) of the names of the series
    kinds,      \* sequence (length n) of their kinds
    tdep,       \* sequence (length n) of their time dependences
    steptol,    \* ParameterErrorTolerance relative to the steady-state tolerance
    horizon,    \* the search horizon: one / two / many computed periods
    option,     \* ParameterInitialSteadyStateExcludedVariables: a set of names
    excluded,   \* subset of 1..n: the series the acceptance loop skips
    sid,        \* id of the scheme the system was taken from (0: none)
    wf,         \* the system is well formed
    runres,     \* "none" | "ok" | "conv" | "valerr" | "other"
    cls,        \* after Run("ok"): sequence (length n) of classes
    judged,     \* series judged so far
    bad,        \* series judged bad
    exc,        \* "" | "NoEquilibriumError" | "ValueError" | "other"
    outer,      \* snapshot of the solver that is being initialised
    inner       \* the same three identities of the copy the search works on

sys  == << n, names, kinds, tdep, steptol, horizon, option, excluded, wf, sid >>      \* the system and the option: never change
vars == << phase, sys, runres, cls, judged, bad, exc, outer, inner >>

Min(S) == CHOOSE x \in S : \A y \in S : x <= y

Setup(nms, kds, tds, st, hz, opt, w, id) ==
    /\ horizon = hz
    /\ phase = "idle" /\ n = Len(nms) /\ names = nms /\ kinds = kds /\ tdep = tds /\ steptol = st /\ option = opt /\ wf = w /\ sid = id
    /\ excluded = SkippedSet(nms, kds, opt)
    /\ runres = "none" /\ cls = << >> /\ judged = {} /\ bad = {} /\ exc = ""
    /\ outer = Outer0 /\ inner = NoCopy

MinId == Min({ s.id : s \in Schemes })
Init == \E s \in Schemes, w \in (IF AllowMalformed THEN BOOLEAN ELSE {TRUE}) :
          \E ex \in s.excls :
            /\ (~w => (s.id = MinId /\ ex = {}))      \* one malformed system is enough
            /\ Setup(s.names, s.kinds, s.tdep, s.steptol, s.horizon, OptionOf(ex), w, s.id)

Copy ==
    /\ phase = "idle"
    /\ phase' = "copied"
    /\ inner' = [eq |-> outer.eq, exo |-> outer.exo, hor |-> outer.hor, axis |-> "outer"]
    /\ UNCHANGED << sys, runres, cls, judged, bad, exc, outer >>

FreezeExogenous ==
    /\ phase = "copied"
    /\ phase' = "frozen"
    /\ inner' = [inner EXCEPT !.exo = FrozenExo, !.hor = SearchHor,
                               !.axis = IF AsFound_TimeAxisFrozen THEN "frozen" ELSE "search"]
    /\ UNCHANGED << sys, runres, cls, judged, bad, exc, outer >>

Run(res, c) ==
    /\ phase = "frozen"
    /\ res \in {"ok", "conv", "valerr", "other"}
    /\ (res = "other") => ~wf
    /\ (res = "ok") => Len(c) = n
    /\ (res # "ok") => c = << >>
    /\ phase' = "ran"
    /\ runres' = res
    /\ cls' = c
    /\ UNCHANGED << sys, judged, bad, exc, outer, inner >>

(* the class the acceptance loop gets to see: on a constant time axis a time-dependent series is at rest *)
Seen(v) == IF \/ (inner.axis = "frozen" /\ tdep[v] # "none")
              \/ (AsFound_ShortHorizonNotCompared /\ horizon = "one")      \* prev := last
           THEN [cls[v] EXCEPT !.drift = "zero", !.last = cls[v].prev, !.stays = TRUE]
           ELSE cls[v]
(* the level the search ended at belongs to k = 0 *)
RestAtK0(v) == tdep[v] = "none" \/ inner.axis = "search"

ToJudge == ((1..n) \ excluded) \ judged

Judge(v) ==
    /\ phase \in {"ran", "judging"}
    /\ runres = "ok"
    /\ ToJudge # {}
    /\ v = Min(ToJudge)                 \* the loop runs over the series in a fixed order
    /\ phase' = "judging"
    /\ judged' = judged \cup {v}
    /\ bad' = IF JudgeBad(Seen(v)) /\ ~(AsFound_DecorativeUntested /\ kinds[v] = "decorative")
              THEN bad \cup {v} ELSE bad
    /\ UNCHANGED << sys, runres, cls, exc, outer, inner >>

Install ==
    /\ phase \in {"ran", "judging"}
    /\ runres = "ok"
    /\ ToJudge = {}
    /\ bad = {}
    /\ phase' = "installed"
    /\ UNCHANGED << sys, runres, cls, judged, bad, exc, outer, inner >>

Reject ==
    /\ phase \in {"ran", "judging"}
    /\ runres = "ok"
    /\ ToJudge = {}
    /\ bad # {}
    /\ phase' = "rejected"
    /\ exc' = "NoEquilibriumError"
    /\ UNCHANGED << sys, runres, cls, judged, bad, outer, inner >>

Raise ==
    /\ phase = "ran"
    /\ runres \in {"conv", "valerr", "other"}
    /\ phase' = "raised"
    /\ exc' = IF runres = "other" THEN "other" ELSE "ValueError"
    /\ UNCHANGED << sys, runres, cls, judged, bad, outer, inner >>

(* the class sequences of the bounded instance (n <= 3) *)
GridOf(id) == (CHOOSE s \in Schemes : s.id = id).grid
ClassSeqs(nn) ==
    LET Grid == GridOf(sid) IN
    CASE nn = 1 -> { << a >> : a \in Grid[1] }
      [] nn = 2 -> { << a, b >> : a \in Grid[1], b \in Grid[2] }
      [] nn = 3 -> { << a, b, c >> : a \in Grid[1], b \in Grid[2], c \in Grid[3] }

Next ==
    \/ Copy
    \/ FreezeExogenous
    \/ (phase = "frozen" /\ wf /\ \E c \in ClassSeqs(n) : Run("ok", c))    \* (guard first: cheap for TLC)
    \/ (wf /\ \E r \in {"conv", "valerr"} : Run(r, << >>))
    \/ Run("other", << >>)
    \/ \E v \in 1..n : Judge(v)
    \/ Install
    \/ Reject
    \/ Raise

Spec == Init /\ [][Next]_vars

Terminal == phase \in {"installed", "rejected", "raised"}

----------------------------------------------------------------------------
(* C15 *)
NonExcluded == { v \in 1..n : ~IsExcludedName(names[v], option) }

(* every series that is not on the exclusion list has been judged (and thereby installed) and is steady *)
C15_AcceptedIsSteady ==
    phase = "installed" => \A v \in NonExcluded : (v \in judged /\ SteadyClass(cls[v]) /\ RestAtK0(v))

(* the judged set is exactly the set of non-excluded series *)
C15_JudgesExactlyNonExcluded ==
    phase \in {"installed", "rejected"} => judged = NonExcluded

C15_OtherwiseRaises ==
    (Terminal /\ phase # "installed" /\ wf) => exc \in {"NoEquilibriumError", "ValueError"}

(* action property: no action of the search changes the solver it initialises *)
C15_LeavesSolverUntouched == [][outer' = outer]_vars

TypeOK ==
    /\ phase \in {"idle", "copied", "frozen", "ran", "judging", "installed", "rejected", "raised"}
    /\ n = Len(names) /\ n = Len(kinds) /\ n = Len(tdep) /\ steptol \in StepTols /\ horizon \in Horizons /\ (\A i \in 1..n : tdep[i] \in TDeps) /\ \A i \in 1..n : kinds[i] \in Kinds
    /\ excluded \subseteq 1..n
    /\ runres \in {"none", "ok", "conv", "valerr", "other"}
    /\ (runres = "ok") => (Len(cls) = n /\ \A i \in 1..n : (cls[i] \in LooseOf(AllClasses)
                                                           /\ (cls[i].loose => steptol = "coarser")))
    /\ judged \subseteq 1..n /\ bad \subseteq judged
    /\ exc \in {"", "NoEquilibriumError", "ValueError", "other"}
    /\ (phase \in {"idle"}) => inner = NoCopy
=============================================================================
