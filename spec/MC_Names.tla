------------------------------ MODULE MC_Names ------------------------------
EXTENDS Names, Json
MC_Vars == { << "HH", "F" >>, << "BUS", "F" >>, << "GOV", "T" >>, << "GOOD", "SUP_GOOD" >> }
MC_Places == {"sector_eq", "term", "supplier_rule", "global", "own_generate"}
Emit == (phase = "final") => PrintT(<< "BEH", ToJson([requests |-> asked]) >>)
=============================================================================
